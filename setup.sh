#!/bin/bash
# Offline setup: nothing to build (pure-Python harness run by /venv/bin/python, which already
# holds the repository's dependencies). Sanity-check that the interpreter and the tree import.
set -e
cd "$(dirname "$0")"
mkdir -p evidence
/venv/bin/python -B -c "import sys; sys.path.insert(0,'.'); from vlib import common; common.import_setigen(); print('setup ok')"
