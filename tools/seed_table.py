#!/venv/bin/python
"""Regenerates the table of seeded changes in DESIGN.md (between the SEED-TABLE markers) from seeded/*/*/meta.json."""
import json, glob, os, re
rows = []
for f in sorted(glob.glob('/verif/seeded/*/*/meta.json')):
    m = json.load(open(f))
    name = os.path.basename(os.path.dirname(f))
    det = m.get('detection', {})
    caught = m.get('caught_by', [])
    keys = ''
    for k in caught[:1]:
        ks = det.get(k, {}).get('keys', '')
        keys = ', '.join(re.findall(r"'([^']+)':", ks)[:2])
    summ = (m.get('summary') or '').replace('\n', ' ').replace('|', '/')
    needs = (m.get('needs_to_manifest') or '').replace('\n', ' ').replace('|', '/')
    rows.append(f"| {m.get('breaks_property', '?')} | {name} | {summ[:150]} | {needs[:130]} | {', '.join(caught) or '**missed**'} | {keys[:90]} |")
table = ("| property | seed | change | needs to manifest | caught by | first mechanism keys |\n|---|---|---|---|---|---|\n" + '\n'.join(rows))
p = '/verif/DESIGN.md'
s = open(p).read()
a, b = '<!-- SEED-TABLE-BEGIN -->', '<!-- SEED-TABLE-END -->'
if a in s:
    s = s[:s.index(a) + len(a)] + '\n' + table + '\n' + s[s.index(b):]
    open(p, 'w').write(s)
print(len(rows), 'rows')
