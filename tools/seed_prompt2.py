#!/venv/bin/python
"""Round-2 prompt: same as seed_prompt.py plus the list of already-known changes to avoid (summaries only)."""
import json, sys, glob, subprocess
pid, wt = sys.argv[1], sys.argv[2]
base = subprocess.run(['/verif/tools/seed_prompt.py', pid, wt], capture_output=True, text=True).stdout
prev = []
for f in sorted(glob.glob(f'/verif/seeded/{pid}/*/meta.json')):
    m = json.load(open(f))
    prev.append('- ' + (m.get('summary') or '')[:300].replace('\n', ' '))
extra = ("\n\nADDITIONAL CONSTRAINTS FOR THIS ROUND: never use `git stash` (shared between worktrees; use diff files, `git apply`, `git checkout -- .`). "
         "Earlier rounds already produced the changes summarised below; yours must differ from all of them in mechanism AND location -- do not "
         "re-use these ideas or close variants. Aim for subtler ones: changes whose effect needs a longer history (three or more steps), an "
         "interaction between two modules, state carried between calls or objects, a rare-but-valid parameter combination, or a numerical "
         "edge (exact ties, exact multiples, extreme but valid magnitudes). Produce TWO changes this time (k = 1, 2).\n"
         "Already known (avoid):\n" + '\n'.join(prev) + "\n")
print(base.replace('produce up to THREE independent', 'produce TWO independent').replace('For each change k = 1, 2, 3 create', 'For each change k = 1, 2 create') + extra)
