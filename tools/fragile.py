#!/venv/bin/python
"""How robustly is a kept seeded change caught?  tools/fragile.py seeded/C07/r2_C07_1 [C07] [nseeds]
Applies the patch to a scratch copy of /repo's package (outside /repo and /verif), runs the check for several workload seeds and
prints the number of violating cases per seed; the scratch copy is removed."""
import sys, os, re, ast, json, shutil, subprocess, tempfile
sd = os.path.normpath(sys.argv[1])
meta = json.load(open(os.path.join(sd, 'meta.json')))
prop = sys.argv[2] if len(sys.argv) > 2 else (meta.get('breaks_property') or meta['property'])
n = int(sys.argv[3]) if len(sys.argv) > 3 else 5
wt = tempfile.mkdtemp(prefix='fragile_', dir='/tmp')
try:
    subprocess.run(['git', '-C', '/repo', 'archive', 'HEAD', '--format=tar', '-o', wt + '/r.tar'], check=True)
    subprocess.run(['tar', '-xf', wt + '/r.tar', '-C', wt], check=True); os.remove(wt + '/r.tar')
    subprocess.run(['git', 'apply', '--whitespace=nowarn', os.path.abspath(os.path.join(sd, 'patch.diff'))], cwd=wt, check=True)
    out = []
    for s in range(n):
        r = subprocess.run(['/verif/check', prop, '--no-evidence', '--seed', str(s)], env=dict(os.environ, VERIF_REPO=wt, VERIF_NO_SUITE='1'),
                           capture_output=True, text=True)
        m = re.search(r'violating cases by mechanism key: (\{.*\})', r.stdout)
        tot = sum(ast.literal_eval(m.group(1)).values()) if m else 0
        out.append(tot)
    print(os.path.basename(sd), prop, out, 'FRAGILE' if min(out) < 3 else '')
finally:
    shutil.rmtree(wt, ignore_errors=True)
