#!/bin/bash
# re-confirm and re-evaluate every kept seeded change against the current checks (4 in parallel); results in /tmp/seedres
mkdir -p /tmp/seedres; rm -f /tmp/seedres/*
ls -d /verif/seeded/*/* | xargs -P 4 -I{} sh -c '/verif/tools/seedcheck.py --kept {} > /tmp/seedres/$(basename {}).json 2>/tmp/seedres/$(basename {}).err'
