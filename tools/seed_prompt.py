#!/venv/bin/python
"""Prints the prompt for a fresh seeded-breakage agent for one property (property text only, no /verif)."""
import json, sys
pid, wt = sys.argv[1], sys.argv[2]
p = [json.loads(l) for l in open('/verif/properties.jsonl') if json.loads(l)['id'] == pid][0]
print(f"""You are testing how well an (undisclosed) verification effort can detect regressions in the Python library bbrzycki/setigen. You work ONLY inside your own scratch git worktree of the repository: {wt} . Do not read, list or touch anything under /verif or /repo, and do not look for other people's checks anywhere: your work must be independent.

Use the interpreter /venv/bin/python. IMPORTANT: setigen is installed in editable mode pointing elsewhere, so always run with PYTHONPATH={wt} and verify once with `PYTHONPATH={wt} /venv/bin/python -c "import setigen; print(setigen.__file__)"` that the worktree copy is the one imported. The test suite is run with: cd {wt} && PYTHONPATH={wt} /venv/bin/python -m pytest -q -p no:cacheprovider tests   (55 tests, about a minute).

Here is a semantic property of setigen that is supposed to hold for ALL inputs / configurations / histories:

ID: {p['id']} -- {p['title']}
STATEMENT: {p['statement']}
QUANTIFIER: {json.dumps(p['quantifier'])}
WHY THE EXISTING TESTS CANNOT SETTLE IT: {p['why_tests_cant']}
WHERE THE MECHANISM LIVES (anchors): {json.dumps(p['anchors'])}

Your task: produce up to THREE independent, realistic source changes to setigen (each a separate small patch against the clean worktree) that BREAK this property while (a) the package still imports and (b) the existing test suite still passes completely (55 passed). "Realistic" means the kind of change a developer could plausibly make by mistake or as a well-meant refactoring / optimisation / "simplification": an off-by-one, a wrong rounding mode, a swapped argument, a dropped reset, a cache that is not invalidated, an in-place operation on shared state, a condition that is right for the common case only, two cooperating edits that each look fine alone. Prefer changes that need something SPECIFIC to manifest -- a particular size or residue, a particular orientation or sign, a multi-step sequence of operations, a particular partition of requests, a fault at a particular point, an unusual but valid input, a second call in the same process -- and avoid changes that any ordinary use would expose at once. Make the three changes different in mechanism and location. Do not break anything the property does not cover on purpose.

For each change k = 1, 2, 3 create in {wt}:
  - seed_k.diff : the patch, produced with `git diff > seed_k.diff` from the otherwise clean worktree (then `git checkout -- .` to restore before the next one; the seed_*/demo_*/meta_* files themselves stay untracked).
  - demo_k.py   : a small stand-alone program (run as `PYTHONPATH={wt} /venv/bin/python demo_k.py`) that exits 0 on the clean worktree and exits non-zero (assertion failure with a clear message) when the patch is applied. It must demonstrate a violation of the property AS STATED, not merely a difference in output.
  - meta_k.json : {{"property": "{p['id']}", "summary": "...", "needs_to_manifest": "...what specific input/sequence/size is needed...", "files_changed": [...], "tests_passed_with_change": true, "demo_fails_with_change": true, "demo_passes_without_change": true}}
You must actually verify all three facts for each change (run the full test suite with the patch applied; run the demo with and without). Discard a candidate that fails any of them. Leave the worktree clean (git checkout -- .) at the end, with only the seed_/demo_/meta_ files added.

Final report: for each change one short paragraph (what, why it is plausible, what is needed to see it) and the verification results you observed.""")
