#!/venv/bin/python
import json, glob, sys, collections
prop = sys.argv[1]
seen = collections.OrderedDict()
for f in sorted(glob.glob(f'/verif/evidence/replays/{prop}/*.json')):
    d = json.load(open(f))
    for v in d['violations']:
        if v['key'] not in seen:
            seen[v['key']] = (f, d['case'], v)
for k, (f, c, v) in seen.items():
    print('=' * 100); print(k, f)
    print('CASE', json.dumps(c)[:1500])
    det = v['detail']
    if 'traceback' in det:
        print(det['traceback'][-900:])
    else:
        print('DETAIL', json.dumps(det)[:800])
