#!/venv/bin/python
"""Regenerate MANIFEST.json from the per-property modules that exist (vlib/props/cNN.py with MANIFEST dict)."""
import json, os, sys, importlib
V = os.path.dirname(os.path.dirname(os.path.abspath(__file__)))
sys.path.insert(0, V)
props = [json.loads(l) for l in open(os.path.join(V, 'properties.jsonl'))]
checks, na = [], []
for p in props:
    pid = p['id']
    path = os.path.join(V, 'vlib', 'props', pid.lower() + '.py')
    if not os.path.exists(path) or not os.path.exists(os.path.join(V, 'evidence', pid + '.json')):
        na.append({'property_id': pid, 'reason': 'monitor not built yet (work in progress; the technique applies, see DESIGN.md section 4)'})
        continue
    mod = importlib.import_module('vlib.props.' + pid.lower())
    m = getattr(mod, 'MANIFEST', {})
    checks.append({
        'property_id': pid,
        'quick_cmd': f'./check {pid} --tier quick',
        'thorough_cmd': f'./check {pid} --tier thorough',
        'evidence_file': f'/verif/evidence/{pid}.json',
        'replay_cmd_template': f'./check {pid} --replay {{path}}',
        'engine': 'vlib',
        'level_claimed': {'category': getattr(mod, 'LEVEL', 'exploration'),
                          'text': m.get('text', mod.RULE), 'design_ref': f'DESIGN.md section 4, {pid}'},
        'level_note': m.get('note', '; '.join(getattr(mod, 'ASSUMPTIONS', []))),
        'technique': m.get('technique', 'runtime monitoring: reference-model post-conditions on the real API over generated workloads'),
    })
man = {
    'version': 1,
    'setup_cmd': './setup.sh',
    'hooks': {
        'guard': 'SETIGEN_VERIF',
        'enable': 'no source hooks: monitors are attached from outside by the harness (class-level wrappers on the imported /repo tree); SETIGEN_VERIF is reserved and read by nothing in /repo',
        'baseline_off_cmd': 'cd /repo && /venv/bin/python -m pytest -ra -q -p no:cacheprovider --timeout=900 --continue-on-collection-errors',
        'source_commits': [],
        'add_only': True,
    },
    'engines': [{'name': 'vlib', 'path': '/verif/vlib', 'serves_properties': [c['property_id'] for c in checks],
                 'kind_free_text': 'Python runtime-monitoring harness: stratified workload generators, fresh-interpreter workers importing /repo, reference-model oracles, three-valued verdicts, evidence/replay writers'}],
    'checks': checks,
    'notes': 'All checks run /venv/bin/python against the working tree at $VERIF_REPO (default /repo); exit 2 + INCONCLUSIVE line means the monitors did not observe enough (never folded into held). known_findings.txt lists open/fixed findings by mechanism key.',
    'not_applicable': na,
}
json.dump(man, open(os.path.join(V, 'MANIFEST.json'), 'w'), indent=1)
print('checks:', [c['property_id'] for c in checks], 'na:', len(na))
