#!/bin/bash
# prints the build prompt for one property monitor
ID=$1
cat <<TXT
You are helping build runtime-monitoring checks for the Python library bbrzycki/setigen (source tree at /repo, read-only for you: do NOT edit or commit anything under /repo). The verification harness lives in /verif. Your job: write the monitor module for property $ID as the single new file /verif/vlib/props/$(echo $ID | tr A-Z a-z).py (plus, only if you need a sizeable reference model, one new file under /verif/vlib/ref/). Do not edit any other existing file in /verif, do not run git commit, do not touch MANIFEST.json.

Read first, in this order:
1. /verif/MONITOR_API.md (the harness API and the rules).
2. The property itself: the line with "id": "$ID" in /verif/properties.jsonl (statement, quantifier, anchors). The property text is fixed and is the specification.
3. The design for it: the "### $ID" subsection of section 4 in /verif/DESIGN.md (Refute / Monitor / Workload / Soundness notes / Must catch / Seen), plus sections 3.1-3.2 (reference models, tolerance discipline) and the row for $ID in section 6 (pre-existing defects already seen by probes).
4. Example monitors: /verif/vlib/props/c13.py, c05.py, c06.py; and the anchored source files of the property under /repo/setigen.

Then implement the monitor as designed: stratified generator (gen_cases), run_case with an INDEPENDENT oracle written from the property text (never by copying the code's arithmetic), derived tolerances, mechanism keys that say what failed structurally, feature buckets and required() minimums, RULE / ASSUMPTIONS / MANIFEST strings. Use /venv/bin/python (the harness does this for you via ./check). Quick tier must finish in well under a minute on 16 cores; thorough tier = the same generator with a much larger budget (several minutes).

Validate your monitor:
a) Run \`cd /verif && ./check $ID --no-evidence --seed N\` for N in 0..4 and \`./check $ID --tier thorough --no-evidence\` once. Every alarm on the unchanged tree must be triaged by hand against the real code: if your oracle demands more than the property states or your harness misdrives the API, fix the monitor; if setigen really breaks the property (DESIGN.md section 6 lists the ones already suspected for $ID), keep the check as it is, make sure that defect surfaces under its own stable mechanism key (distinct from other failure modes), and report it (see below). Do not loosen a correct check to make it quiet, and do not list anything in known_findings.txt yourself.
b) Mutation self-test: for each item of the "Must catch" list of the design (and any other realistic break you can think of that keeps the repository's tests passing), run \`tools/mut.py $ID setigen/<file>.py 'old text' 'new text'\` and make sure it prints CAUGHT. Strengthen the workload/oracle where a mutant is MISSED. If pre-existing defects make the unchanged tree fail, you can still judge mutants by the *new* keys they add.
c) INCONCLUSIVE (exit 2) on the unchanged tree means a harness error or an unreachable required bucket: fix it.

Final report (your last message), concise:
- what the monitor checks (clauses), workload strata, budget and wall time per tier;
- every genuine defect of /repo your monitor exposed: mechanism key, a minimal failing input, the offending source lines, and a proposed MINIMAL patch (unified diff text) that a maintainer would accept (corrects the behaviour, does not special-case the input); do not apply it;
- the mutants you tried, CAUGHT/MISSED each;
- anything about the property you could not monitor and why.
TXT
