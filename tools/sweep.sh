#!/bin/bash
# tools/sweep.sh <tier> <seed...>  : run every claimed check for the given seeds, print one line each
# (no evidence files are written unless SWEEP_EVIDENCE=1)
tier=$1; shift
cd /verif
for s in "$@"; do
  for p in C01 C02 C03 C04 C05 C06 C07 C08 C09 C10 C11 C12 C13 C14 C15 C16 C17 C18 C19 C20; do
    ev="--no-evidence"; [ "$SWEEP_EVIDENCE" = "1" ] && ev=""
    out=$(VERIF_SEED=$s ./check $p --tier $tier $ev 2>&1); rc=$?
    echo "seed=$s $p rc=$rc $(echo "$out" | grep -E "^\[$p\] tier" | sed 's/.*status=//' | cut -c1-120) $(echo "$out" | grep -E "VIOLATION|INCONCLUSIVE|shortfall" | head -2 | tr '\n' ' ' | cut -c1-300)"
  done
done
