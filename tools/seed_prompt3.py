#!/venv/bin/python
"""Round >= 5 prompt: seed_prompt2 plus: no rounding-only changes, look beyond the anchored functions."""
import sys, subprocess
pid, wt = sys.argv[1], sys.argv[2]
base = subprocess.run(['/verif/tools/seed_prompt2.py', pid, wt], capture_output=True, text=True).stdout
extra = ("\nFURTHER GUIDANCE FOR THIS ROUND:\n"
         "- The demo scripts will be re-run from ANOTHER copy of the repository: they must not assert where setigen was imported from, and must "
         "not depend on the current working directory (write scratch files to a tempfile.mkdtemp() directory).\n"
         "- NOT acceptable (they will be rejected): changes whose only observable effect is within floating-point rounding of the inputs "
         "(exact ties, values one ulp from a tie, results differing by an ulp), and changes to behaviour the property does not state "
         "(storage dtype, tie-breaking rule, wording of messages). The demonstration must show a difference a user would call wrong: a "
         "wrong pixel/sample/byte/count/axis value by a macroscopic amount, a lost or repeated item, state that changed although it must not.\n"
         "- Earlier rounds concentrated on the functions named in the anchors. Look further: the helpers those functions call, constructors and "
         "argument plumbing (defaults, keyword forwarding, unit handling, type coercion of inputs such as lists / tuples / numpy scalars / "
         "Quantities), module-level state, `__init__`/`__getstate__`/`copy` hooks, error paths (what is left behind when an exception is "
         "raised half-way), and objects shared between two instances. Two cooperating edits in different files are welcome.\n"
         "- Also worth exploring: rarely used keyword arguments and optional code paths of the public functions involved; alternative but "
         "valid input types; the same object used for two different kinds of calls; the order in which independent steps are taken; "
         "values at the edges of what the constructor admits (smallest sizes, single element axes, largest realistic magnitudes).\n")
print(base + extra)
