#!/venv/bin/python
"""Audit a generator for aliased strata: for every pair of low-cardinality case fields, how much of the cross product is reached?
   tools/strata_audit.py C19 [tier]"""
import sys, itertools, collections
sys.path.insert(0, '/verif')
import importlib
prop = sys.argv[1]; tier = sys.argv[2] if len(sys.argv) > 2 else 'quick'
mod = importlib.import_module('vlib.props.' + prop.lower())
cases = mod.gen_cases(0, tier)

def flat(d, pre=''):
    out = {}
    for k, v in d.items():
        if isinstance(v, dict):
            out.update(flat(v, pre + k + '.'))
        elif isinstance(v, (bool, str)) or (isinstance(v, int) and not isinstance(v, bool)):
            out[pre + k] = v
        elif isinstance(v, list) and v and isinstance(v[0], dict) and len(v) <= 4:
            out.update(flat(v[0], pre + k + '[0].'))
    return out
rows = [flat(c) for c in cases]
vals = collections.defaultdict(set)
for r in rows:
    for k, v in r.items():
        vals[k].add(v)
keys = [k for k, s in vals.items() if 2 <= len(s) <= 12 and sum(1 for r in rows if k in r) > 0.5 * len(rows)]
bad = []
for a, b in itertools.combinations(keys, 2):
    seen = set((r[a], r[b]) for r in rows if a in r and b in r)
    full = len(vals[a]) * len(vals[b])
    if len(seen) < 0.75 * full and len(rows) > 6 * full:
        bad.append((len(seen) / full, a, b, len(seen), full))
print(prop, 'cases', len(cases), 'low-cardinality fields', len(keys))
for frac, a, b, s, f in sorted(bad)[:25]:
    print(f'  {a} x {b}: {s}/{f} combinations reached')
