#!/venv/bin/python
"""Confirm and evaluate one independently seeded change.

  tools/seedcheck.py <seed_dir> <k> [--checks C01,C06] [--thorough-on-miss] [--keep]

Steps (all on a scratch worktree of /repo HEAD, removed afterwards; /repo itself is never touched):
  1. demo passes on the clean tree, 2. patch applies, 3. demo fails with the patch, 4. the repository's tests still pass,
  5. run the property's check (and any extra --checks) against the patched copy via VERIF_REPO.
With --keep the seed is stored as /verif/seeded/<prop>/<name>/ (patch.diff, demo.py, meta.json incl. what was run).
"""
import sys, os, json, subprocess, shutil, tempfile, time
args = sys.argv[1:]
kept = None
if args[0] == '--kept':
    kept = os.path.normpath(args[1])
    sd, k = kept, 'kept'
else:
    sd, k = args[0], args[1]
extra = []
if '--checks' in args:
    extra = args[args.index('--checks') + 1].split(',')
thorough_on_miss = '--thorough-on-miss' in args
keep = '--keep' in args
if kept:
    patch = os.path.join(sd, 'patch.diff'); demo = os.path.join(sd, 'demo.py'); metaf = os.path.join(sd, 'meta.json')
else:
    patch = os.path.join(sd, f'seed_{k}.diff'); demo = os.path.join(sd, f'demo_{k}.py'); metaf = os.path.join(sd, f'meta_{k}.json')
meta = json.load(open(metaf)) if os.path.exists(metaf) else {}
prop = meta.get('breaks_property') or meta.get('property') or os.path.basename(os.path.normpath(sd))
if kept:
    keep = True
    extra = sorted({c_.split(':')[0] for c_ in meta.get('detection', {})} - {prop}) + extra
PY = '/venv/bin/python'
wt = tempfile.mkdtemp(prefix='seedchk_', dir='/tmp'); os.rmdir(wt)
subprocess.run(['git', '-C', '/repo', 'worktree', 'add', '-q', '--detach', wt, 'HEAD'], check=True)
res = dict(property=prop, seed=f'{os.path.basename(os.path.normpath(sd))}/{k}', repo_head=subprocess.run(['git','-C','/repo','rev-parse','--short','HEAD'],capture_output=True,text=True).stdout.strip())
try:
    demo_in_wt = os.path.join(wt, '_seed_demo.py')      # the script's directory comes first on sys.path: run it from the scratch tree
    shutil.copyfile(demo, demo_in_wt)

    def run_demo():
        r = subprocess.run([PY, demo_in_wt], cwd=wt, env=dict(os.environ, PYTHONPATH=wt, MPLBACKEND='Agg'), capture_output=True, text=True, timeout=1800)
        return r.returncode, (r.stdout + r.stderr)[-600:]
    rc0, out0 = run_demo()
    res['demo_clean_rc'] = rc0
    a = subprocess.run(['git', '-C', wt, 'apply', '--whitespace=nowarn', patch], capture_output=True, text=True)
    res['patch_applies'] = a.returncode == 0
    if a.returncode != 0:
        res['apply_err'] = a.stderr[-400:]
        print(json.dumps(res)); sys.exit(3)
    rc1, out1 = run_demo()
    res['demo_patched_rc'] = rc1
    res['demo_patched_tail'] = out1[-300:]
    os.remove(demo_in_wt)
    t = subprocess.run([PY, '-m', 'pytest', '-q', '-p', 'no:cacheprovider', '-x', 'tests'], cwd=wt, env=dict(os.environ, PYTHONPATH=wt, MPLBACKEND='Agg'),
                       capture_output=True, text=True, timeout=3600)
    res['tests_tail'] = (t.stdout.strip().splitlines() or ['?'])[-1]
    res['tests_pass'] = t.returncode == 0
    res['confirmed'] = (rc0 == 0 and rc1 != 0 and res['tests_pass'])
    checks = [prop] + [c for c in extra if c != prop]
    res['checks'] = {}
    for c in checks:
        for tier in (['quick', 'thorough'] if thorough_on_miss and c == prop else ['quick']):
            t0 = time.time()
            r = subprocess.run(['/verif/check', c, '--no-evidence', '--tier', tier], env=dict(os.environ, VERIF_REPO=wt), capture_output=True, text=True)
            keys = [l for l in r.stdout.splitlines() if 'violating cases by mechanism key' in l]
            res['checks'][f'{c}:{tier}'] = dict(rc=r.returncode, caught=(r.returncode == 1), keys=(keys[0].split('key:')[-1].strip()[:500] if keys else ''),
                                               wall=round(time.time() - t0, 1))
            shutil.rmtree(f'/verif/evidence/replays/{c}', ignore_errors=True)
            if r.returncode == 1:
                break
    res['caught_by'] = [k_ for k_, v in res['checks'].items() if v['caught']]
    if keep and res['confirmed']:
        name = os.path.basename(sd) if kept else f"{os.path.basename(os.path.normpath(sd))}_{k}"
        dst = f'/verif/seeded/{prop}/{name}'
        os.makedirs(dst, exist_ok=True)
        if not kept:
            shutil.copyfile(patch, dst + '/patch.diff'); shutil.copyfile(demo, dst + '/demo.py')
        meta.update(breaks_property=prop, confirmation=dict(demo_clean_rc=rc0, demo_patched_rc=rc1, tests=res['tests_tail'], repo_head=res['repo_head'],
                    ran=['demo on clean scratch worktree', 'git apply', 'demo on patched worktree', 'pytest tests (55) on patched worktree',
                         './check <id> with VERIF_REPO=<patched worktree>']), detection=res['checks'], caught_by=res['caught_by'])
        json.dump(meta, open(dst + '/meta.json', 'w'), indent=1)
finally:
    subprocess.run(['git', '-C', '/repo', 'worktree', 'remove', '--force', wt])
print(json.dumps(res, indent=1))
