#!/venv/bin/python
"""Self-validation helper: copy /repo/setigen to a scratch dir, apply one textual
replacement, run the given check(s) against the copy (VERIF_REPO), remove the copy.

  tools/mut.py C05[,C01] setigen/frame.py 'old text' 'new text' [--tier quick] [--tests]
Expects exit 1 + VIOLATION; prints CAUGHT / MISSED.
"""
import sys, os, shutil, subprocess, tempfile
props, rel, old, new = sys.argv[1:5]
extra = sys.argv[5:]
run_tests = '--tests' in extra
extra = [e for e in extra if e != '--tests']
d = tempfile.mkdtemp(prefix='mut_', dir='/tmp')
try:
    shutil.copytree('/repo/setigen', os.path.join(d, 'setigen'))
    p = os.path.join(d, rel)
    s = open(p).read()
    if s.count(old) != 1:
        print(f'pattern occurs {s.count(old)} times in {rel}'); sys.exit(3)
    open(p, 'w').write(s.replace(old, new))
    env = dict(os.environ, VERIF_REPO=d)
    for prop in props.split(','):
        r = subprocess.run(['/verif/check', prop, '--no-evidence'] + extra, env=env, capture_output=True, text=True)
        lines = [l for l in r.stdout.splitlines() if l.startswith(('VIOLATION', 'INCONCLUSIVE', '[' + prop + '] violating'))]
        print(('CAUGHT' if r.returncode == 1 else f'MISSED(rc={r.returncode})'), prop, '|', ' ; '.join(lines[:3])[:400])
        # drop replays produced by mutation runs
        shutil.rmtree(f'/verif/evidence/replays/{prop}', ignore_errors=True)
    if run_tests:
        shutil.copytree('/repo/tests', os.path.join(d, 'tests'))
        r = subprocess.run(['/venv/bin/python', '-m', 'pytest', '-q', '-x', '-p', 'no:cacheprovider', 'tests'], cwd=d,
                           env=dict(os.environ, PYTHONPATH=d), capture_output=True, text=True)
        print('repo tests:', r.stdout.strip().splitlines()[-1] if r.stdout.strip() else r.stderr[-300:])
finally:
    shutil.rmtree(d, ignore_errors=True)
