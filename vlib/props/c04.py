"""C04 -- recorded files are well-formed GUPPI RAW and all readers agree on framing.

Monitor: post-condition on RawVoltageBackend.record: every file is parsed by the
independent reader R-GUPPI (strict padding rule, BLOCSIZE, END), block distribution,
PKTIDX progression, owned fields vs configuration (with override attempts), user cards
preserved; the library's readers (read_header, get_blocks_in_file, get_blocks_per_file,
get_total_blocks, get_raw_params, from_data) and blimpy's GuppiRaw are compared with
R-GUPPI under permutations of the directory listing realised for real on tmpfs.
"""
import os
import glob
import shutil
import itertools
import numpy as np
from .. import common, work_raw
from ..ref import guppi

ID = 'C04'
LEVEL = 'exploration'
RULE = ('header dictionaries of valid cards (keys 1-8 chars; ints, floats, strings <= 40 chars) padded with filler cards so that '
        '(cards+END) mod 32 takes every residue 0..31 (stratified by case index; residue 0 = header already 512-aligned), x template '
        'on/off x DIRECTIO {absent, 0, 1, "1", quoted "1"} x override attempts on every pipeline-owned field x PKTIDX/PKTSTART given or '
        'not x blocks 1..9 / blocks_per_file 1..4 / 1-3 antennas / 8,4 bit / 1,2 pols; readers re-run under up to 6 (quick) / all '
        '(thorough, <= 4 files) creation-order permutations of the files in a fresh tmpfs directory; non-trivial = >= 2 blocks parsed and '
        'reader comparison done; distinct = distinct descriptor')
ASSUMPTIONS = ['blimpy ends a header at any card that begins with END; files with such (valid) user keys are judged by R-GUPPI and the library readers only',
               'card values are compared after parsing (strings: quotes/padding stripped; numbers by value), not by byte layout',
               'TELESCOP/OBSERVER/SRC_NAME defaulting is not judged',
               'blimpy GuppiRaw is consulted (framing only) when DIRECTIO is absent/0, or 1 with BLOCSIZE % 512 == 0 (it pads relative to the '
               'absolute file offset, the property relative to the header length)',
               'TBIN is written with 15 significant digits: compared to 1e-13 relative']
OWNED = ['NBITS', 'NPOL', 'OBSNCHAN', 'NANTS', 'BLOCSIZE', 'TBIN', 'CHAN_BW', 'OBSBW', 'OBSFREQ', 'SCANLEN']
RESERVED = set(OWNED) | {'DIRECTIO', 'PKTIDX', 'PKTSTART', 'PKTSTOP', 'TELESCOP', 'OBSERVER', 'SRC_NAME', 'END'}
DIRECTIO = ['absent', 0, 1, '1', "'1'", 'absent', 1, 0, '0', "'0'", 1]


def required(tier):
    b = {f'residue:{k}': 1 for k in range(32)}
    b.update({'residue:0': 4, 'directio:on': 40, 'directio:off': 40, 'template:on': 20, 'template:off': 40, 'override-attempt': 30,
              'multi-file': 40, 'permutations>=2': 20, 'many-blocks-unpadded': 20, 're-recorded-same-stem': 50, 'reducer-header-skip': 30, 'user-key-begins-with-END': 20, 'sibling-stems-in-directory': 50, 'directio:string-zero': 20, 'empty-string-value': 10, 'blimpy-consulted': 50, 'aligned+directio': 3, 're-recorded-through-from_data:longer-than-input': 60,
              're-recorded-through-from_data:user-card-clashes-with-inherited': 40, 'second-recording-same-backend': 40, 're-recorded-onto-existing-files': 20})
    return {'buckets': b, 'counters': {'blocks_parsed': 500, 'reader_comparisons': 500, 'listing_orders_realised': 40},
            'checks': 3000, 'nontrivial': 100}


def gen_cases(seed, tier):
    rng = np.random.default_rng([seed, 4])
    n = 512 if tier == 'quick' else 60000
    cases = []
    letters = 'ABCDEFGHIJKLMNOPQRSTUVWXYZ'
    chars = letters + '0123456789_'
    schars = letters + letters.lower() + '0123456789 _-:./+'
    for i in range(n):
        cfg = work_raw.gen_config(rng, tier, i=i, P=int(common.pick(rng, [8, 16])), M=int(rng.integers(2, 4)),
                                  mult=int(rng.integers(1, 4)), nblocks=int(rng.integers(1, 10)), tones=[])
        cfg['nchan'] = int(rng.integers(1, cfg['P'] // 2 + 1))
        cfg['start_chan'] = int(rng.integers(0, cfg['P'] // 2 - cfg['nchan'] + 1))
        cfg['nsub'] = 1
        many = (common.stratum(i, 1, 5) == 1)
        if many:     # many blocks per file: block-count readers that mis-size the header drift by a whole block
            cfg['nblocks'], cfg['bpf'] = int(rng.integers(20, 41)), int(rng.integers(15, 41))
        user = {}
        for _ in range(int(rng.integers(0, 9))):
            k = letters[int(rng.integers(26))] + ''.join(chars[int(x)] for x in rng.integers(0, len(chars), size=int(rng.integers(0, 8))))
            if k in RESERVED or k.startswith('FILL'):
                continue
            r = rng.random()
            if r < 0.35:
                v = int(rng.integers(-10 ** 9, 10 ** 9))
            elif r < 0.65:
                v = float(common.pick(rng, [0.5, -2.25, 1e-7, 6.02e23, 1 / 3, 25720.21484375, -187.5, 3.41333333333333e-07]))
            else:
                v = ''.join(schars[int(x)] for x in rng.integers(0, len(schars), size=int(rng.integers(1, 41)))).strip() or 'x'
            user[k] = v
        d = common.stratum(i, 2, DIRECTIO)
        if d != 'absent':
            user['DIRECTIO'] = d
        override = {}
        if common.stratum(i, 3, 2):
            fld = common.stratum(i, 4, OWNED)
            override[fld] = {'NBITS': 16, 'NPOL': 4, 'OBSNCHAN': 999, 'NANTS': 7, 'BLOCSIZE': 4096, 'TBIN': 1.0e-3, 'CHAN_BW': 123.5,
                             'OBSBW': -77.0, 'OBSFREQ': 1.0, 'SCANLEN': 9999.0}[fld]
        pkt = {}
        pk = common.stratum(i, 5, 3)
        if pk == 1:
            pkt['PKTIDX'] = int(rng.integers(0, 10 ** 6))
        elif pk == 2:
            pkt['PKTIDX'] = int(rng.integers(0, 10 ** 6))
            pkt['PKTSTART'] = pkt['PKTIDX'] - int(rng.integers(0, 100))
        if rng.random() < 0.1:
            user['SRC_NAME'] = 'VOYAGER1'
        if common.stratum(i, 6, 16) == 5:
            user['EMPTYSTR'] = ''
        if common.stratum(i, 7, 7) == 4:
            # a valid 8-character key that merely begins with the letters E N D (only the exact END card terminates a header)
            user[str(common.pick(rng, ['ENDFREQ', 'ENDTIME', 'ENDING', 'ENDCHAN8']))] = int(rng.integers(1, 1000))
        cases.append(dict(cfg=cfg, user=user, override=override, pkt=pkt, template=bool(common.stratum(i, 8, 3) == 0) and not many,
                          residue=0 if common.stratum(i, 9, 8) == 0 else common.stratum(i, 10, 32), sub=int(rng.integers(2 ** 31))))
    return cases


def _val_equal(want, raw):
    got = guppi.parse_value(raw)
    if isinstance(want, str):
        w = want.strip()
        if w.startswith("'"):
            w = w.strip("'").strip()
        return str(got).strip() == w
    if isinstance(want, bool):
        return False
    if isinstance(want, int):
        return isinstance(got, (int, float)) and got == want
    if isinstance(want, float):
        return isinstance(got, (int, float)) and float(got) == want
    return False


def run_case(c, R):
    stg = common.import_setigen()
    from setigen.voltage import raw_utils
    cfg = c['cfg']
    tmp = os.path.join(os.environ['VERIF_TMP'], f"c04_{c['_idx']}")
    os.makedirs(tmp, exist_ok=True)
    try:
        _run(stg, raw_utils, c, cfg, tmp, R)
    finally:
        shutil.rmtree(tmp, ignore_errors=True)


def _template_keys():
    path = os.path.join(common.REPO, 'setigen', 'voltage', 'assets', 'header_template.txt')
    keys = []
    for line in open(path):
        k = line[:8].strip()
        if k and k != 'END':
            keys.append(k)
    return keys


def _run(stg, raw_utils, c, cfg, tmp, R):
    sz = work_raw.sizes(cfg)
    rvb, src = work_raw.build(stg, cfg)
    is_array = cfg['nants'] > 1
    hd = {}
    hd.update(c['user'])
    hd.update(c['override'])
    hd.update(c['pkt'])
    # filler cards so that (cards + END) % 32 == residue
    final_keys = set(hd) | {'TELESCOP', 'OBSERVER', 'SRC_NAME', 'NBITS', 'CHAN_BW', 'NPOL', 'BLOCSIZE', 'SCANLEN', 'TBIN',
                            'OBSNCHAN', 'OBSBW', 'OBSFREQ', 'PKTIDX', 'PKTSTART', 'PKTSTOP'}
    if is_array:
        final_keys.add('NANTS')
    if c['template']:
        final_keys |= set(_template_keys())
    nfill = (c['residue'] - (len(final_keys) + 1)) % 32
    for k in range(nfill):
        hd[f'FILL{k:03d}'] = k
    ncards = len(final_keys) + nfill + 1
    R.bucket(f"residue:{ncards % 32}")
    R.bucket('template:on' if c['template'] else 'template:off')
    if c['override']:
        R.bucket('override-attempt')
    if isinstance(hd.get('DIRECTIO'), str) and hd['DIRECTIO'].strip("'") == '0':
        R.bucket('directio:string-zero')
    if any(v == '' for v in hd.values() if isinstance(v, str)):
        R.bucket('empty-string-value')
    mine = dict(hd)
    stem = os.path.join(tmp, 'rec')
    rec = work_raw.do_record(stg, cfg, stem, rvb=rvb, src=src, header_dict=dict(hd), load_template=c['template'])
    files = rec['files']
    nfiles_want = -(-cfg['nblocks'] // cfg['bpf'])
    R.check([os.path.basename(f) for f in files] == [f'rec.{k:04d}.raw' for k in range(nfiles_want)], 'file-names',
            got=[os.path.basename(f) for f in files], want=nfiles_want)
    if len(files) > 1:
        R.bucket('multi-file')
    # ---- strict independent parse
    first_raw = open(files[0], 'rb').read(80 * (ncards + 40)) if files else b''
    per_file = []
    parsed_ok = True
    for fi, f in enumerate(files):
        try:
            blocks = guppi.parse_file(f)
        except guppi.GuppiError as e:
            # structural condition: is the header already 512-aligned with DIRECTIO set?
            ncard_file = 0
            while first_raw[80 * ncard_file:80 * ncard_file + 3] != b'END' and ncard_file < ncards + 39:
                ncard_file += 1
            hbytes = 80 * (ncard_file + 1)
            dio = any(first_raw[80 * k:80 * k + 8] == b'DIRECTIO' and b'0' not in first_raw[80 * k + 9:80 * k + 40].replace(b"'", b'').strip()[:1]
                      for k in range(ncard_file))
            struct = ':header-512-aligned+directio' if (hbytes % 512 == 0 and dio) else ''
            R.violate('framing:' + e.key + struct, file=fi, msg=str(e), header_bytes=hbytes)
            parsed_ok = False
            break
        per_file.append(blocks)
        R.count('blocks_parsed', len(blocks))
    if not parsed_ok:
        return
    all_blocks = [b for blocks in per_file for b in blocks]
    R.check(len(all_blocks) == cfg['nblocks'], 'total-block-count', got=len(all_blocks), want=cfg['nblocks'])
    for fi, blocks in enumerate(per_file):
        want = cfg['bpf'] if fi < nfiles_want - 1 else cfg['nblocks'] - cfg['bpf'] * (nfiles_want - 1)
        R.check(len(blocks) == want, 'blocks-per-file-distribution', file=fi, got=len(blocks), want=want)
    h0 = all_blocks[0]['header'] if all_blocks else {}
    dio = guppi.directio_of(h0)
    R.bucket('directio:on' if dio else 'directio:off')
    if not dio and per_file and len(per_file[0]) >= 10:
        R.bucket('many-blocks-unpadded')
    if dio and all_blocks and all_blocks[0]['header_bytes'] % 512 == 0:
        R.bucket('aligned+directio')
    chan_bw = cfg['sample_rate'] / cfg['P'] * (1 if cfg['asc'] else -1)
    tbin = cfg['P'] / cfg['sample_rate']
    spb = sz['spb']
    owned = {'NBITS': cfg['bits'], 'NPOL': cfg['npol'], 'OBSNCHAN': cfg['nchan'] * cfg['nants'], 'BLOCSIZE': sz['block_size'],
             'TBIN': tbin, 'CHAN_BW': chan_bw * 1e-6, 'OBSBW': chan_bw * cfg['nchan'] * 1e-6,
             'OBSFREQ': (cfg['fch1'] + (cfg['start_chan'] + (cfg['nchan'] - 1) / 2) * chan_bw) * 1e-6,
             'SCANLEN': cfg['nblocks'] * spb * tbin}
    pkt0 = int(c['pkt'].get('PKTIDX', 0))
    pktstart = int(c['pkt'].get('PKTSTART', pkt0))
    for bi, blk in enumerate(all_blocks):
        h = blk['header']
        R.check(blk['cards'] == ncards, 'card-count', block=bi, got=blk['cards'], want=ncards)
        R.check(len(blk['data']) == sz['block_size'], 'data-length', block=bi)
        for k, w in owned.items():
            if k not in h:
                R.violate('owned-field-missing:' + k, block=bi)
                continue
            g = guppi.parse_value(h[k])
            ok = isinstance(g, (int, float)) and (abs(g - w) <= 1e-13 * abs(w) if k == 'TBIN' else
                                                  abs(g - w) <= 4 * np.spacing(abs(w)) if isinstance(w, float) else g == w)
            R.check(ok, 'owned-field-wrong:' + k + (':override-wins' if k in c['override'] else ''), block=bi, got=g, want=w)
        if is_array:
            g = guppi.parse_value(h.get('NANTS', 'missing'))
            R.check(g == cfg['nants'], 'owned-field-wrong:NANTS' + (':override-wins' if 'NANTS' in c['override'] else ''), got=g, want=cfg['nants'])
        else:
            g = guppi.parse_value(h['NANTS']) if 'NANTS' in h else 1
            R.check(g == 1, 'owned-field-wrong:NANTS:single-antenna' + (':override-wins' if 'NANTS' in c['override'] else ''), got=g, want=1)
        g = guppi.parse_value(h.get('PKTIDX', 'missing'))
        R.check(g == pkt0 + bi * spb, 'pktidx-progression', block=bi, got=g, want=pkt0 + bi * spb)
        g = guppi.parse_value(h.get('PKTSTART', 'missing'))
        R.check(g == pktstart, 'pktstart', block=bi, got=g, want=pktstart)
        g = guppi.parse_value(h.get('PKTSTOP', 'missing'))
        R.check(g == pktstart + cfg['nblocks'] * spb, 'pktstop', block=bi, got=g, want=pktstart + cfg['nblocks'] * spb)
        if bi in (0, len(all_blocks) - 1):
            for k, w in mine.items():
                if k in OWNED or k in ('PKTIDX', 'PKTSTART', 'PKTSTOP'):
                    continue
                if k not in h:
                    R.violate('user-card-lost', card=k, block=bi)
                else:
                    R.check(_val_equal(w, h[k]), 'user-card-altered', card=k, want=w, got=h[k], block=bi)
    # ---- library readers vs R-GUPPI, under permutations of the directory listing
    nb_file = [len(b) for b in per_file]
    hsize = all_blocks[0]['header_bytes'] + all_blocks[0]['pad']
    k = len(files)
    perms = list(itertools.permutations(range(k))) if k <= 4 else [tuple(np.random.default_rng(c['sub'] + q).permutation(k)) for q in range(12)]
    if len(perms) > 6 and os.environ.get('VERIF_TIER_EFF', 'quick') == 'quick':
        rr = np.random.default_rng(c['sub'])
        idx = sorted(set([0, len(perms) - 1] + [int(x) for x in rr.integers(0, len(perms), size=4)]))
        perms = [perms[q] for q in idx]
    orders_seen = set()
    for pi, perm in enumerate(perms):
        d = os.path.join(tmp, f'perm{pi}')
        os.makedirs(d)
        for q in perm:                        # creation order; tmpfs lists in reverse creation order
            shutil.copyfile(files[q], os.path.join(d, os.path.basename(files[q])))
        if pi % 2 == 1:
            # files of OTHER recordings whose stems merely extend or resemble this one live in the same directory
            for sib in ('rec.injected.0000.raw', 'rec.injected.0001.raw', 'rec2.0000.raw', 'recX.0007.raw', 'rec.00000.raw'):
                shutil.copyfile(files[0], os.path.join(d, sib))
            R.bucket('sibling-stems-in-directory')
        pstem = os.path.join(d, 'rec')
        listing = tuple(os.path.basename(x) for x in glob.glob(pstem + '.????.raw'))
        orders_seen.add(listing)
        with common.quiet():
            tot = raw_utils.get_total_blocks(pstem)
            bpf = raw_utils.get_blocks_per_file(pstem)
        R.count('reader_comparisons')
        last_listed = listing[-1] if listing else None
        R.check(tot == cfg['nblocks'], 'get_total_blocks' + (':listing-order' if len(listing) > 1 and last_listed != os.path.basename(files[-1]) else ''),
                got=int(tot), want=cfg['nblocks'], listing=list(listing))
        R.check(bpf == nb_file[0], 'get_blocks_per_file', got=int(bpf), want=nb_file[0])
        if pi == 0 or pi == len(perms) - 1:
            for fi in range(k):
                got = raw_utils.get_blocks_in_file(os.path.join(d, os.path.basename(files[fi])))
                R.check(got == nb_file[fi], 'get_blocks_in_file' + ('' if dio else ':directio-off'), file=fi, got=int(got), want=nb_file[fi])
            rh = raw_utils.read_header(os.path.join(d, os.path.basename(files[0])))
            R.check(set(rh) == set(h0), 'read_header-keys', missing=sorted(set(h0) - set(rh))[:5], extra=sorted(set(rh) - set(h0))[:5])
            bad = [kk for kk in h0 if kk in rh and str(guppi.parse_value(h0[kk])).strip() != str(rh[kk]).strip().strip("'").strip()
                   and not _num_eq(h0[kk], rh[kk])]
            R.check(not bad, 'read_header-values', keys=bad[:5])
            rp = raw_utils.get_raw_params(pstem, start_chan=cfg['start_chan'])
            want = dict(num_bits=cfg['bits'], chan_bw=chan_bw, ascending=cfg['asc'], num_pols=cfg['npol'], block_size=sz['block_size'],
                        obs_length=owned['SCANLEN'], tbin=tbin, num_antennas=cfg['nants'], num_chans=cfg['nchan'],
                        center_freq=owned['OBSFREQ'] * 1e6, fch1=cfg['fch1'])
            for kk, w in want.items():
                g = rp.get(kk)
                if isinstance(w, float) and not isinstance(w, bool):
                    ok = g is not None and abs(g - w) <= max(1e-12 * abs(w), 1e-3 if kk == 'fch1' else 0.0)
                else:
                    ok = (g == w)
                R.check(ok, 'get_raw_params:' + kk, got=g, want=w)
            # construction from the recorded data
            ant = stg.voltage.Antenna(sample_rate=cfg['sample_rate'], fch1=cfg['fch1'], ascending=cfg['asc'], num_pols=cfg['npol'], seed=1) \
                if cfg['nants'] == 1 else stg.voltage.MultiAntennaArray(num_antennas=cfg['nants'], sample_rate=cfg['sample_rate'],
                                                                         fch1=cfg['fch1'], ascending=cfg['asc'], num_pols=cfg['npol'],
                                                                         delays=[0] * cfg['nants'], seed=1)
            fb = stg.voltage.PolyphaseFilterbank(num_taps=cfg['M'], num_branches=cfg['P'])
            with common.quiet():
                b2 = stg.voltage.RawVoltageBackend.from_data(pstem, ant, filterbank=fb, start_chan=cfg['start_chan'], num_subblocks=1)
            R.check(b2.header_size == hsize, 'from_data-header_size' + ('' if dio else ':directio-off'), got=int(b2.header_size), want=hsize)
            R.check(b2.input_num_blocks == cfg['nblocks'], 'from_data-input_num_blocks', got=int(b2.input_num_blocks), want=cfg['nblocks'])
            R.check(b2.block_size == sz['block_size'] and b2.num_bits == cfg['bits'] and b2.num_chans == cfg['nchan']
                    and b2.blocks_per_file == nb_file[0], 'from_data-parameters')
        shutil.rmtree(d, ignore_errors=True)
    R.count('listing_orders_realised', len(orders_seen))
    if len(orders_seen) >= 2:
        R.bucket('permutations>=2')
    # ---- the quick-look reducer's own header skip (dual-polarisation 8-bit files only, per its docstring)
    if cfg['npol'] == 2 and cfg['bits'] == 8 and cfg['nants'] == 1:
        R.bucket('reducer-header-skip')
        with common.quiet():
            wfq = stg.voltage.get_waterfall_from_raw(files[0], sz['block_size'], cfg['nchan'], int_factor=1, fftlength=1)
        first = guppi.decode_block(all_blocks[0]['data'], cfg['nchan'], 2, 8)          # (chan, time, pol)
        want_q = (np.abs(first[:, :, 0]) ** 2 + np.abs(first[:, :, 1]) ** 2).T
        R.check(np.shape(wfq) == want_q.shape and bool(np.all(np.abs(np.asarray(wfq) - want_q) <= 1e-9 * max(1.0, float(want_q.max())))),
                'reducer-reads-block-from-wrong-offset' + (':user-key-begins-with-END' if any(k.startswith('END') for k in h0) else ''),
                shape=list(np.shape(wfq)), want=list(want_q.shape))
    # ---- blimpy as second framing reader
    d_raw = h0.get('DIRECTIO')
    dv = guppi.parse_value(d_raw) if d_raw is not None else 0
    end_like = any(k.startswith('END') for k in h0)
    if end_like:
        R.bucket('user-key-begins-with-END')
    if not end_like and ((not dio) or (str(dv).strip("' ") == '1' and sz['block_size'] % 512 == 0)):
        from blimpy.guppi import GuppiRaw
        R.bucket('blimpy-consulted')
        for fi, f in enumerate(files[:2]):
            try:
                with common.quiet():
                    gr = GuppiRaw(f)
                    nb = gr.n_blocks
                    gr.file_obj.close()
                R.check(nb == nb_file[fi], 'blimpy-framing-disagrees', file=fi, got=int(nb), want=nb_file[fi])
            except SystemExit:
                R.violate('blimpy-rejects-file', file=fi)
    R.mark_nontrivial(len(all_blocks) >= 2)
    # ---- the same layout recorded AGAIN onto the same stem, the earlier files still in place: every file is rewritten, none grows
    if c['_idx'] % 4 == 3 and len(files) >= 2:
        R.bucket('re-recorded-onto-existing-files')
        rec3 = work_raw.do_record(stg, dict(cfg, seed=cfg['seed'] + 2), stem, header_dict={'DIRECTIO': 1 if dio else 0}, load_template=False)
        try:
            counts3 = [len(guppi.parse_file(f)) for f in rec3['files']]
        except guppi.GuppiError as e:
            counts3 = None
            R.violate('framing:' + e.key + ':re-recorded-onto-existing-files', msg=str(e))
        if counts3 is not None:
            R.check(counts3 == [len(b) for b in per_file], 'blocks-per-file-distribution:re-recorded-onto-existing-files', got=counts3,
                    want=[len(b) for b in per_file])
            with common.quiet():
                R.check(raw_utils.get_total_blocks(stem) == cfg['nblocks'], 'get_total_blocks:re-recorded-onto-existing-files',
                        got=int(raw_utils.get_total_blocks(stem)), want=cfg['nblocks'])
    # ---- a second recording made with the SAME backend object: its blocks are distributed blocks-per-file at a time as well,
    # whatever the first recording's last file held
    if c['_idx'] % 4 == 1 and cfg['bpf'] >= 2:
        R.bucket('second-recording-same-backend')
        n2 = int(2 * cfg['bpf'] + (c['sub'] % cfg['bpf']))
        stem_b = os.path.join(tmp, 'recb')
        with common.quiet():
            rec['rvb'].record(stem_b, num_blocks=n2, length_mode='num_blocks', header_dict={}, digitize=cfg['digitize'], load_template=False,
                              verbose=False)
        fb_ = sorted(glob.glob(stem_b + '.????.raw'))
        try:
            counts_ = [len(guppi.parse_file(f)) for f in fb_]
        except guppi.GuppiError as e:
            counts_ = None
            R.violate('framing:' + e.key + ':second-recording-same-backend', msg=str(e))
        if counts_ is not None:
            want_ = [cfg['bpf']] * (n2 // cfg['bpf']) + ([n2 % cfg['bpf']] if n2 % cfg['bpf'] else [])
            R.check(counts_ == want_, 'blocks-per-file-distribution:second-recording-same-backend', got=counts_, want=want_,
                    first_recording=[len(b) for b in per_file])
            R.check(int(rec['rvb'].blocks_per_file) == cfg['bpf'], 'backend-blocks_per_file-changed-by-recording',
                    got=int(rec['rvb'].blocks_per_file), want=cfg['bpf'])
        for f in fb_:
            os.remove(f)
    # ---- the recording is read back through RawVoltageBackend.from_data and written again, the caller asking for MORE than the
    # input holds: the pipeline-owned cards of the new file describe what was written (the input's length), not what was asked for
    if c['_idx'] % 4 == 2 and not c['user'].get('EMPTYSTR') == '':
        R.bucket('re-recorded-through-from_data:longer-than-input')
        v = stg.voltage
        _, src2 = work_raw.build(stg, dict(cfg, tones=[], seed=cfg['seed'] + 5))
        nin = len(all_blocks)
        stem_out = os.path.join(tmp, 'again_out')
        # the caller's own cards for the NEW file: one of them re-uses a key the input already carries, with another value --
        # what the caller supplies now wins over what is inherited from the input
        hd_new = {'NEWNOTE': 'second generation'}
        clash = [k for k, w in c['user'].items() if k not in OWNED and k not in ('PKTIDX', 'PKTSTART', 'PKTSTOP', 'DIRECTIO', 'EMPTYSTR', 'SRC_NAME')
                 and k in h0]
        if clash:
            kq = sorted(clash)[0]
            wq = c['user'][kq]
            hd_new[kq] = (wq + 1) if isinstance(wq, int) else ((wq * 2 + 1.5) if isinstance(wq, float) else 'changed')
            R.bucket('re-recorded-through-from_data:user-card-clashes-with-inherited')
        try:
            with common.quiet():
                rvb2 = v.RawVoltageBackend.from_data(stem, src2, digitizer=v.RealQuantizer(),
                                                     filterbank=v.PolyphaseFilterbank(num_taps=cfg['M'], num_branches=cfg['P']),
                                                     start_chan=cfg['start_chan'], num_subblocks=1)
                if c['_idx'] % 8 == 2:
                    rvb2.record(stem_out, num_blocks=nin + 3, length_mode='num_blocks', header_dict=dict(hd_new), digitize=False, load_template=False,
                                verbose=False)
                else:
                    rvb2.record(stem_out, obs_length=(nin + 2.5) * rvb2.time_per_block, length_mode='obs_length', header_dict=dict(hd_new),
                                digitize=False, load_template=False, verbose=False)
            out_files = sorted(glob.glob(stem_out + '.????.raw'))
            ob = [b for f in out_files for b in guppi.parse_file(f)]
        except guppi.GuppiError as e:
            R.violate('framing:' + e.key + ':re-recorded-through-from_data', msg=str(e))
            ob = None
        if ob is not None:
            R.check(len(ob) == nin, 're-recorded-through-from_data:block-count', got=len(ob), want=nin)
            for bi, blk in enumerate(ob):
                h = blk['header']
                g = guppi.parse_value(h.get('SCANLEN', 'missing'))
                w = nin * spb * tbin
                R.check(isinstance(g, (int, float)) and abs(g - w) <= 1e-12 * w, 're-recorded-through-from_data:owned-field-wrong:SCANLEN',
                        got=g, want=w, asked_blocks=nin + 3, block=bi)
                for k in ('BLOCSIZE', 'OBSNCHAN', 'NBITS', 'TBIN', 'OBSFREQ', 'OBSBW', 'CHAN_BW'):
                    R.check(k in h and _num_eq(h[k], guppi.parse_value(h0[k])), 're-recorded-through-from_data:owned-field-wrong:' + k, block=bi,
                            got=h.get(k), want=h0.get(k), start_chan=cfg['start_chan'])
                if bi in (0, len(ob) - 1):
                    for k, w in hd_new.items():
                        R.check(k in h and _val_equal(w, h[k]), 're-recorded-through-from_data:user-card-lost-or-overridden-by-inherited', card=k,
                                want=w, got=h.get(k), block=bi)
                if 'PKTSTOP' in h and 'PKTSTART' in h:
                    def num_(x):            # cards inherited from the input come back as quoted strings (not judged here)
                        x = guppi.parse_value(x)
                        return float(str(x).strip().strip("'")) if isinstance(x, str) else float(x)
                    try:
                        span = num_(h['PKTSTOP']) - num_(h['PKTSTART'])
                    except ValueError:
                        span = None
                    R.check(span == nin * spb, 're-recorded-through-from_data:pktstop', got=h['PKTSTOP'], start=h['PKTSTART'], block=bi)
            for f in out_files:
                os.remove(f)
    # ---- history: the SAME stem is recorded again in this process with another configuration and header; the library
    # readers must describe the bytes that are on disk now, not what they saw before
    if c['_idx'] % 4 == 0:
        R.bucket('re-recorded-same-stem')
        with common.quiet():                  # the library has looked at this very stem before it is overwritten
            raw_utils.read_header(files[0])
            raw_utils.get_total_blocks(stem)
            raw_utils.get_raw_params(stem, start_chan=cfg['start_chan'])
        for f in files:
            os.remove(f)
        cfg2 = dict(cfg, fch1=cfg['fch1'] + 1.25e6, asc=not cfg['asc'], nblocks=int(cfg['nblocks'] % 5 + 1), seed=cfg['seed'] + 1)
        hd2 = {'DIRECTIO': 0 if dio else 1, 'NEWCARD1': 1, 'NEWCARD2': 'two', 'NEWCARD3': 3.5, 'NEWCARD4': 4, 'NEWCARD5': 5}
        rec2 = work_raw.do_record(stg, cfg2, stem, header_dict=dict(hd2), load_template=False)
        try:
            pf2 = [guppi.parse_file(f) for f in rec2['files']]
        except guppi.GuppiError as e:
            R.violate('framing:' + e.key + ':re-recorded', msg=str(e))
            return
        h2 = pf2[0][0]['header']
        with common.quiet():
            rh2 = raw_utils.read_header(rec2['files'][0])
            tot2 = raw_utils.get_total_blocks(stem)
            nb2 = [raw_utils.get_blocks_in_file(f) for f in rec2['files']]
            rp2 = raw_utils.get_raw_params(stem, start_chan=cfg2['start_chan'])
        R.check(set(rh2) == set(h2), 'read_header-stale-after-re-recording', missing=sorted(set(h2) - set(rh2))[:5], extra=sorted(set(rh2) - set(h2))[:5])
        R.check(tot2 == cfg2['nblocks'] and nb2 == [len(b) for b in pf2], 'block-count-readers-stale-after-re-recording', total=int(tot2),
                want=cfg2['nblocks'], per_file=[int(x) for x in nb2])
        cb2 = cfg2['sample_rate'] / cfg2['P'] * (1 if cfg2['asc'] else -1)
        R.check(abs(rp2['fch1'] - cfg2['fch1']) <= 1e-3 and rp2['ascending'] == cfg2['asc'] and abs(rp2['chan_bw'] - cb2) <= 1e-9 * abs(cb2),
                'get_raw_params-stale-after-re-recording', got=[rp2['fch1'], rp2['chan_bw'], rp2['ascending']], want=[cfg2['fch1'], cb2, cfg2['asc']])


def _num_eq(a, b):
    try:
        return float(guppi.parse_value(a)) == float(str(b).strip().strip("'"))
    except Exception:
        return False


MANIFEST = {
    'text': 'Runtime monitoring: every file written by the real record() over a workload covering every header length modulo 32 cards, '
            'DIRECTIO forms, template on/off, override attempts and multi-file recordings is parsed by an independent strict GUPPI reader; '
            'the library readers and blimpy are compared with it under real permutations of the directory listing (tmpfs creation order).',
    'note': '; '.join(ASSUMPTIONS),
    'technique': 'post-condition monitor with independent format parser as oracle; fault injection on directory-listing order',
}
