"""C05 -- frame axes and frequency/index conversion exact, orientation-independent.

Monitor: class invariant on Frame (axes vs an extended-precision grid) evaluated after
every public method, post-conditions on get_index / get_frequency / get_drift_rate and
derived quantities against exact rationals, opposite-orientation twin comparison.
"""
import math
from fractions import Fraction
import numpy as np

from .. import common, attach

ID = 'C05'
LEVEL = 'exploration'
RULE = ('stratified random frame geometries (orientation x construction route x unit form) with realistic '
        'fch1/df; invariant evaluated after every public Frame method of a short random op history; '
        'non-trivial = fchans>=2 and tchans>=2 and at least one conversion round trip per channel evaluated; '
        'distinct = distinct case descriptor')
ASSUMPTIONS = ['float64 grid may deviate from the exact rational grid by <= 16 ulp(fmax) (observed <= 4)',
               'frequencies closer than 8 ulp(f)/df + 1e-9 channel to a half-way point are not used for the nearest-channel clause',
               'drift rate between two indices is (stop-start)*df/obs_length']

ROUTES = ['sizes', 'shape', 'data', 'from_data', 'backend']
UNITS = ['plain', 'Hz', 'kHz', 'MHz', 'GHz', 'npscalar']


def required(tier):
    b = {f'route:{r}': 3 for r in ROUTES}
    b.update({f'units:{u}': 3 for u in UNITS})
    b.update({'orient:asc': 10, 'orient:desc': 10, 'twin': 5, 'same-numbers-other-flag': 100, 'df:negative-argument': 10, 'history:retimed': 20,
              'history:phased-time-profile': 20, 'history:smeared-injection': 20, 'history:smeared-cadence-injection': 20, 'history:copy-axes-edited-in-place': 20, 'history:failed-cadence-injection': 20})
    return {'buckets': b, 'counters': {'invariant_evals': 100, 'roundtrip_channels': 1000}, 'checks': 500}


def gen_cases(seed, tier):
    rng = np.random.default_rng([seed, 5])
    n = 320 if tier == 'quick' else 48000
    cases = []
    for i in range(n):
        route = ROUTES[i % len(ROUTES)]
        units = UNITS[(i // len(ROUTES)) % len(UNITS)]
        asc = bool((i // (len(ROUTES) * len(UNITS))) % 2)
        big = (tier == 'thorough' and i % 97 == 0)
        if big:
            fchans = int(2 ** rng.integers(16, 21)) + int(rng.integers(-1, 2))
            tchans = int(rng.integers(1, 5))
        else:
            fchans = int(common.pick(rng, [1, 2, 3, 7, 16, 64, 100, 255, 256, 257, 1000, 1024, 4096, 65536])) \
                if rng.random() < 0.4 else int(rng.integers(1, 3000))
            tchans = int(common.pick(rng, [1, 2, 3, 16, 32, 100, 4096])) if rng.random() < 0.4 else int(rng.integers(1, 200))
            if fchans * tchans > 4_000_000:
                tchans = max(1, 4_000_000 // fchans)
        if rng.random() < 0.6:
            df = float(common.pick(rng, common.UGLY_DF))
            dt = float(common.pick(rng, common.UGLY_DT))
        else:
            df = float(10 ** rng.uniform(-2, 6))
            dt = float(10 ** rng.uniform(-3, 2))
        fch1 = float(common.pick(rng, common.UGLY_FCH1)) if rng.random() < 0.6 else float(10 ** rng.uniform(7, 10.69))
        if fch1 - fchans * df <= 1e6:
            fch1 = fchans * df + 1e7
        c = dict(route=route, units=units, asc=asc, fchans=fchans, tchans=tchans, df=df, dt=dt, fch1=fch1,
                 sub=int(rng.integers(2 ** 31)), neg_df=bool(i % 7 == 3 and route != 'backend'))
        if route == 'backend':
            P = int(2 ** rng.integers(3, 12))
            L = int(common.pick(rng, [1, 2, 8, 1024, 1048576, 3, 1000]))
            sr = float(common.pick(rng, [3e9, 2.4e9, 1.7e8, 1e6, 48000.0, 1.5e9]))
            intf = int(rng.integers(1, 60))
            c.update(P=P, L=L, sr=sr, intf=intf, tchans=int(rng.integers(1, 40)))
            dfb = sr / P / L
            if c['fch1'] - fchans * dfb <= 1e6:
                c['fch1'] = float(fchans * dfb + 1e9)
        cases.append(c)
    return cases


def _q(value, unit_name, kind):
    """Express value (Hz or s) in the requested argument form."""
    from astropy import units as u
    if unit_name == 'plain':
        return value
    if unit_name == 'npscalar':
        return np.float64(value)
    if kind == 'f':
        un = {'Hz': u.Hz, 'kHz': u.kHz, 'MHz': u.MHz, 'GHz': u.GHz}[unit_name]
        return (value / un.to(u.Hz)) * un
    return value * u.s if unit_name in ('Hz', 'GHz') else (value * 1e3) * u.ms


def build(stg, c, asc=None, fch1=None):
    from astropy import units as u
    asc = c['asc'] if asc is None else asc
    fch1 = c['fch1'] if fch1 is None else fch1
    un = c['units']
    df, dt, f1 = _q(c['df'], un, 'f'), _q(c['dt'], un, 't'), _q(fch1, un, 'f')
    if c.get('neg_df'):
        df = -df            # a negative channel width (filterbank foff convention) describes the same grid
    route = c['route']
    if route == 'sizes':
        fc = c['fchans'] * u.pixel if un in ('MHz', 'kHz') else c['fchans']
        tc = c['tchans'] * u.pixel if un in ('MHz', 'kHz') else c['tchans']
        return stg.Frame(fchans=fc, tchans=tc, df=df, dt=dt, fch1=f1, ascending=asc, seed=c['sub'])
    if route == 'shape':
        return stg.Frame(shape=(c['tchans'], c['fchans']), df=df, dt=dt, fch1=f1, ascending=asc, seed=c['sub'])
    data = np.zeros((c['tchans'], c['fchans']))
    if route == 'data':
        return stg.Frame(data=data, df=df, dt=dt, fch1=f1, ascending=asc, seed=c['sub'])
    if route == 'from_data':
        return stg.Frame.from_data(df, dt, f1, asc, data, seed=c['sub'])
    if route == 'backend':
        dfb = c['sr'] / c['P'] / c['L']
        dtb = c['intf'] / dfb
        obs = (c['tchans'] + 0.5) * dtb
        # a caller who asked for the same backend's parameters before and edited the dictionary it got (a preview with fewer
        # integrations, dt in ms): the dictionary was the caller's own
        earlier = stg.params_from_backend(obs_length=obs, sample_rate=c['sr'], num_branches=c['P'], fftlength=c['L'], int_factor=c['intf'])
        if isinstance(earlier, dict):
            earlier['tchans'] = 1
            earlier['dt'] = earlier.get('dt', 1.0) * 1000.0
            earlier['fchans'] = 3
        return stg.Frame.from_backend_params(fchans=c['fchans'], obs_length=obs, sample_rate=c['sr'],
                                             num_branches=c['P'], fftlength=c['L'], int_factor=c['intf'],
                                             fch1=f1, ascending=asc, seed=c['sub'])
    raise ValueError(route)


def axes_problem(fr):
    """Invariant: returns None or a (key, detail) describing the broken clause."""
    fs = np.asarray(fr.fs)
    n = int(fr.fchans)
    if fs.shape != (n,):
        return ('fs-length', dict(shape=list(fs.shape), fchans=n))
    if tuple(fr.shape) != (int(fr.tchans), n) or tuple(fr.data.shape) != tuple(fr.shape):
        return ('shape-mismatch', dict(shape=list(fr.shape), data=list(fr.data.shape)))
    if n > 1 and not np.all(np.diff(fs) > 0):
        return ('fs-not-increasing', dict(first=fs[:3].tolist()))
    df = float(fr.df)
    tol = 16 * np.spacing(max(abs(fs[0]), abs(fs[-1])))
    if fr.fmin != fs[0] or fr.fmax != fs[-1]:
        return ('fmin-fmax', dict(fmin=fr.fmin, fs0=float(fs[0]), fmax=fr.fmax, fsl=float(fs[-1])))
    fch1 = np.longdouble(fr.fch1)
    j = np.arange(n, dtype=np.longdouble)
    if fr.ascending:
        ref = fch1 + j * np.longdouble(df)
    else:
        ref = fch1 - (n - 1 - j) * np.longdouble(df)
    err = float(np.max(np.abs(fs.astype(np.longdouble) - ref)))
    if err > tol:
        return ('fs-grid', dict(err=err, tol=tol, asc=bool(fr.ascending)))
    ts = np.asarray(fr.ts)
    m = int(fr.tchans)
    if ts.shape != (m,):
        return ('ts-length', dict(shape=list(ts.shape)))
    tref = np.arange(m, dtype=np.longdouble) * np.longdouble(fr.dt)
    terr = float(np.max(np.abs(ts.astype(np.longdouble) - tref)))
    if terr > 4 * np.spacing(max(1e-300, m * fr.dt)):
        return ('ts-grid', dict(err=terr))
    return None


def run_case(c, R):
    stg = common.import_setigen()
    from astropy import units as u
    rng = np.random.default_rng(c['sub'])
    R.bucket('route:' + c['route'])
    R.bucket('units:' + c['units'])
    R.bucket('orient:asc' if c['asc'] else 'orient:desc')
    if c.get('neg_df'):
        R.bucket('df:negative-argument')
    inv = [0]

    def on_fail(method, prob):
        R.violate('invariant:' + prob[0], after=method, **prob[1])

    in_cad = [0]          # Cadence.add_signal legitimately shifts a member's time axis for the duration of the inner call

    def cond(fr_):
        prob_ = axes_problem(fr_)
        return None if (prob_ and prob_[0].startswith('ts-') and in_cad[0]) else prob_
    attach.wrap(stg.Cadence, 'add_signal', pre=lambda a_, k_: in_cad.__setitem__(0, in_cad[0] + 1),
                post=lambda a_, k_, r_, e_, t_: in_cad.__setitem__(0, in_cad[0] - 1))
    attach.invariant(stg.Frame, cond, on_fail, counter=inv,
                     methods=['__init__', 'add_noise', 'add_signal', 'add_constant_signal', 'zero_data',
                              'get_slice', 'add_metadata', 'get_index', 'get_frequency', 'copy'])
    try:
        fr = build(stg, c)
        _check_frame(stg, c, fr, R, rng)
        # short op history under the invariant
        if fr.fchans * fr.tchans <= 300000:
            for _ in range(int(rng.integers(1, 6))):
                op = int(rng.integers(10))
                if op == 0:
                    if round(fr.df * fr.dt) >= 1:
                        fr.add_noise(x_mean=10.0)
                    else:
                        fr.add_noise(x_mean=10.0, x_std=1.0, noise_type='gaussian')
                elif op == 1:
                    fr.add_constant_signal(f_start=fr.get_frequency(int(rng.integers(fr.fchans))),
                                           drift_rate=float(rng.normal()) * fr.unit_drift_rate,
                                           level=1.0, width=3 * fr.df, f_profile_type='gaussian')
                elif op == 2:
                    fr.zero_data()
                elif op == 3 and fr.fchans >= 2:
                    l = int(rng.integers(0, fr.fchans - 1))
                    r = int(rng.integers(l + 1, fr.fchans + 1))
                    s = fr.get_slice(l, r)
                    R.check(np.array_equal(s.fs, fr.fs[l:r]) or
                            np.max(np.abs(s.fs - fr.fs[l:r])) <= 4 * np.spacing(fr.fmax),
                            'slice-axis', l=l, r=r)
                elif op == 4:
                    # a copy whose axes are then edited in place by its owner (a later pointing, frequencies relative to the band
                    # centre for display): the original's axes are its own
                    cp_ = fr.copy()
                    cp_.ts += 600.0
                    cp_.fs -= float(cp_.fs[len(cp_.fs) // 2])
                    R.bucket('history:copy-axes-edited-in-place')
                elif op == 5:
                    # the start time is re-assigned (directly, or by a cadence laying its frames back to back): the time GRID stays
                    # i*dt and every derived time follows the new start
                    R.bucket('history:retimed')
                    if rng.random() < 0.5:
                        fr.t_start = float(fr.t_start + rng.uniform(-5e4, 5e4))
                    else:
                        others = [stg.Frame(fchans=fr.fchans, tchans=int(rng.integers(1, 6)), df=fr.df, dt=fr.dt, fch1=fr.fch1,
                                            ascending=fr.ascending, t_start=float(fr.t_start + rng.uniform(-1e4, 1e4))) for _ in range(2)]
                        members = [others[0], fr, others[1]]
                        slew = float(common.pick(rng, [0.0, 30.0, 1.0]))
                        stg.Cadence(members, t_slew=slew, t_overwrite=True)
                        for a_, b_ in zip(members[:-1], members[1:]):
                            R.check(abs((b_.t_start - a_.t_stop) - slew) <= 8 * common.ulp(b_.t_start), 'history:cadence-spacing-not-slew',
                                    gap=float(b_.t_start - a_.t_stop), slew=slew)
                        for o_ in others:
                            _derived(o_, R, 'history:')
                elif op == 6:
                    # a shipped time profile with a phase, evaluated on the frame's own time axis
                    R.bucket('history:phased-time-profile')
                    fr.add_signal(stg.constant_path(f_start=fr.get_frequency(int(rng.integers(fr.fchans))),
                                                    drift_rate=float(rng.normal()) * fr.unit_drift_rate),
                                  stg.sine_t_profile(period=float(rng.uniform(2, 20)) * fr.dt, phase=float(rng.uniform(0.5, 40)) * fr.dt,
                                                     amplitude=0.5, level=1.0),
                                  stg.gaussian_f_profile(width=3 * fr.df), stg.constant_bp_profile(level=1.0))
                elif op == 9:
                    # the frame as a later member of a cadence whose injection FAILS half-way (a time-profile array sized for another
                    # member): the caller catches the error and goes on using the frames, whose axes are still their own
                    R.bucket('history:failed-cadence-injection')
                    lead = stg.Frame(fchans=fr.fchans, tchans=int(fr.tchans) + 2, df=fr.df, dt=fr.dt, fch1=fr.fch1,
                                     ascending=fr.ascending, t_start=float(fr.t_start) - 700.0 - float(rng.uniform(0, 1e3)))
                    try:
                        stg.Cadence([lead, fr]).add_signal(stg.constant_path(f_start=fr.get_frequency(int(rng.integers(fr.fchans))), drift_rate=0.0),
                                                           np.ones(int(fr.tchans) + 2), stg.gaussian_f_profile(width=3 * fr.df),
                                                           stg.constant_bp_profile(level=1.0))
                        R.count('failed_cadence_injection_did_not_fail')
                    except Exception:                       # noqa
                        R.count('failed_cadence_injections')
                    _derived(lead, R, 'history:')
                elif op == 8:
                    # the frame as a LATER member of a cadence that injects a smeared drifting signal (the cadence shifts the member's
                    # time axis for the duration of the call): afterwards the frame's own axes -- the extended one included -- are its own
                    R.bucket('history:smeared-cadence-injection')
                    lead = stg.Frame(fchans=fr.fchans, tchans=int(rng.integers(1, 5)), df=fr.df, dt=fr.dt, fch1=fr.fch1,
                                     ascending=fr.ascending, t_start=float(fr.t_start) - 500.0 - float(rng.uniform(0, 1e3)))
                    # ... and a second later member that nobody has looked at yet (the monitor's own reads of this frame's axes are
                    # part of ITS history: a lazily built axis is already built)
                    unseen = stg.Frame(fchans=fr.fchans, tchans=int(rng.integers(1, 5)), df=fr.df, dt=fr.dt, fch1=fr.fch1,
                                       ascending=fr.ascending, t_start=float(fr.t_start) + 900.0 + float(rng.uniform(0, 1e3)))
                    cad_ = stg.Cadence([lead, fr, unseen])
                    cad_.add_signal(stg.constant_path(f_start=fr.get_frequency(int(rng.integers(fr.fchans))),
                                                      drift_rate=float(rng.normal()) * 2 * fr.unit_drift_rate),
                                    stg.constant_t_profile(level=1.0), stg.gaussian_f_profile(width=3 * fr.df),
                                    stg.constant_bp_profile(level=1.0), doppler_smearing=True, smearing_subsamples=3)
                    _derived(lead, R, 'history:')
                    _derived(unseen, R, 'history:unseen-member:')
                else:
                    R.bucket('history:smeared-injection')
                    fr.add_constant_signal(f_start=fr.get_frequency(int(rng.integers(fr.fchans))),
                                           drift_rate=float(rng.normal()) * 3 * fr.unit_drift_rate,
                                           level=1.0, width=2 * fr.df, f_profile_type='gaussian', doppler_smearing=True)
                _derived(fr, R, 'history:')
    finally:
        attach.restore_all()
    R.count('invariant_evals', inv[0])
    R.check(inv[0] >= 1, 'invariant-not-evaluated')
    R.mark_nontrivial(c['fchans'] >= 2 and c['tchans'] >= 2)


def _derived(fr, R, tag=''):
    """Derived times follow from the grid and the CURRENT start time."""
    m = int(fr.tchans)
    R.check(abs(fr.obs_length - m * fr.dt) <= 2 * common.ulp(m * fr.dt), tag + 'obs_length')
    R.check(abs(fr.t_stop - (fr.t_start + m * fr.dt)) <= 4 * common.ulp(fr.t_stop), tag + 't_stop', t_stop=float(fr.t_stop),
            t_start=float(fr.t_start), obs=float(m * fr.dt))
    te = np.asarray(fr.ts_ext)
    R.check(te.shape == (m + 1,) and np.array_equal(te[:m], fr.ts)
            and abs(te[-1] - m * fr.dt) <= 4 * common.ulp(m * fr.dt), tag + 'ts_ext', last=float(te[-1]), want=m * fr.dt)
    prob = axes_problem(fr)
    R.check(prob is None, tag + 'axes:' + (prob[0] if prob else 'ok'))


def _check_frame(stg, c, fr, R, rng):
    n, m = c['fchans'], c['tchans']
    df, dt, fch1 = c['df'], c['dt'], c['fch1']
    if c['route'] == 'backend':
        df = c['sr'] / c['P'] / c['L']
        dt = c['intf'] / df
        R.check(fr.tchans == c['tchans'], 'backend-tchans', got=fr.tchans, want=c['tchans'])
        m = fr.tchans
    R.check(fr.fchans == n and fr.tchans == m and tuple(fr.shape) == (m, n), 'shape', shape=list(fr.shape))
    R.check(abs(fr.df - df) <= 2 * common.ulp(df), 'df-value', got=fr.df, want=df)
    R.check(abs(fr.dt - dt) <= 2 * common.ulp(dt), 'dt-value', got=fr.dt, want=dt)
    R.check(abs(fr.fch1 - fch1) <= 2 * common.ulp(fch1), 'fch1-value', got=fr.fch1, want=fch1)
    R.check(bool(fr.ascending) == c['asc'], 'orientation-flag')
    tolf = 16 * common.ulp(max(fr.fmax, fr.fmin))
    # exact rational reference at sampled channels
    F1, DF = Fraction(float(fr.fch1)), Fraction(float(fr.df))
    js = sorted(set([0, n - 1, n // 2] + [int(x) for x in rng.integers(0, n, size=8)]))
    for j in js:
        ref = F1 + j * DF if c['asc'] else F1 - (n - 1 - j) * DF
        R.check(abs(Fraction(float(fr.fs[j])) - ref) <= tolf, 'fs-exact', j=j, got=float(fr.fs[j]), want=float(ref))
        R.maximum('fs_ulp', float(abs(Fraction(float(fr.fs[j])) - ref)) / common.ulp(fr.fmax))
    if c['asc']:
        R.check(fr.fmin == fr.fch1, 'fch1-is-fmin-for-ascending', fmin=fr.fmin, fch1=fr.fch1)
    else:
        R.check(fr.fmax == fr.fch1, 'fch1-is-fmax-for-descending', fmax=fr.fmax, fch1=fr.fch1)
    # derived quantities
    R.check(abs(fr.fmid - (fr.fmin + fr.fmax) / 2) <= tolf, 'fmid')
    R.check(abs(float(Fraction(fr.fmax) - Fraction(fr.fmin) - (n - 1) * DF)) <= 2 * tolf, 'span', n=n)
    R.check(abs(fr.obs_length - m * fr.dt) <= 2 * common.ulp(m * fr.dt), 'obs_length')
    R.check(abs(fr.t_stop - (fr.t_start + m * fr.dt)) <= 4 * common.ulp(fr.t_stop), 't_stop')
    R.check(abs(fr.unit_drift_rate - fr.df / fr.dt) <= 2 * common.ulp(fr.df / fr.dt), 'unit_drift_rate')
    te = np.asarray(fr.ts_ext)
    R.check(te.shape == (m + 1,) and np.array_equal(te[:m], fr.ts)
            and abs(te[-1] - m * fr.dt) <= 4 * common.ulp(m * fr.dt), 'ts_ext', last=float(te[-1]), want=m * fr.dt)
    a, b = int(rng.integers(0, n)), int(rng.integers(0, n))
    want = float(Fraction(b - a) * DF / (m * Fraction(float(fr.dt))))
    got = fr.get_drift_rate(a, b)
    R.check(abs(got - want) <= 4 * common.ulp(want) + 1e-300, 'get_drift_rate', a=a, b=b, got=got, want=want)
    # mjd <-> t_start
    from astropy.time import Time
    mj = 58000.0 + float(rng.uniform(0, 3000))
    fm = stg.Frame(fchans=4, tchans=2, df=fr.df, dt=fr.dt, fch1=fr.fch1, ascending=c['asc'], mjd=mj)
    R.check(abs(fm.mjd - mj) < 1e-9 and abs(fm.t_start - Time(mj, format='mjd').unix) < 1e-4, 'mjd-roundtrip',
            mjd=mj, got=fm.mjd)
    ft = stg.Frame(fchans=4, tchans=2, df=fr.df, dt=fr.dt, fch1=fr.fch1, ascending=c['asc'], t_start=1.7e9 + mj)
    R.check(ft.t_start == 1.7e9 + mj, 't_start-kwarg')
    # index <-> frequency round trip on every channel (vectorised), and on scalars
    idx = np.arange(n)
    fq = fr.get_frequency(idx)
    R.check(np.max(np.abs(fq - fr.fs)) <= tolf, 'get_frequency-vs-fs', err=float(np.max(np.abs(fq - fr.fs))))
    back = fr.get_index(fq)
    R.check(np.array_equal(np.asarray(back), idx), 'roundtrip-index-frequency-index',
            first_bad=int(np.argmax(np.asarray(back) != idx)))
    back2 = fr.get_index(fr.fs)
    R.check(np.array_equal(np.asarray(back2), idx), 'get_index-of-axis', first_bad=int(np.argmax(np.asarray(back2) != idx)))
    R.count('roundtrip_channels', 2 * n)
    guard = 8 * common.ulp(fr.fmax) / fr.df + 1e-9
    if guard < 0.2:
        for j in js:
            for frac in (-0.5 + 2 * guard, -0.25, 0.0, 0.3, 0.5 - 2 * guard, float(rng.uniform(-0.5 + 2 * guard, 0.5 - 2 * guard))):
                f = float(fr.fs[j]) + frac * fr.df
                off = (Fraction(f) - Fraction(float(fr.fmin))) / DF - j
                if abs(abs(off) - Fraction(1, 2)) <= Fraction(guard):
                    continue
                want_j = j + (1 if off > Fraction(1, 2) else (-1 if off < Fraction(-1, 2) else 0))
                got_j = fr.get_index(f)
                R.check(int(got_j) == want_j, 'get_index-nearest', f=f, got=int(got_j), want=want_j, frac=frac)
                if rng.random() < 0.2:
                    from astropy import units as u
                    got_q = fr.get_index((f * 1e-6) * u.MHz)
                    R.check(abs(int(got_q) - want_j) <= (0 if abs(abs(float(off)) - 0.5) > 4 * guard else 1),
                            'get_index-quantity', f=f, got=int(got_q), want=want_j)
        # outside the band: nearest extrapolated channel
        for k in (-3, n + 2):
            got_j = fr.get_index(float(fr.fmin) + k * fr.df)
            R.check(int(got_j) == k, 'get_index-outside-band', k=k, got=int(got_j))
    # the same NUMBERS with the other flag describe another band (fch1 is then the other edge): whatever the library remembers
    # about grids it has built must not leak between the two, in either order
    if n * m <= 300000 and c['route'] != 'backend':
        R.bucket('same-numbers-other-flag')
        opp = build(stg, c, asc=not c['asc'])
        prob = axes_problem(opp)
        R.check(prob is None, 'other-flag-same-numbers:' + (prob[0] if prob else 'axes'), **(prob[1] if prob else {}))
        R.check((opp.fmin == opp.fch1) if not c['asc'] else (opp.fmax == opp.fch1), 'other-flag-same-numbers:fch1-edge',
                fmin=float(opp.fmin), fmax=float(opp.fmax), fch1=float(opp.fch1))
        again = build(stg, c)
        R.check(np.array_equal(again.fs, fr.fs) and again.fmin == fr.fmin and again.fmax == fr.fmax,
                'same-arguments-after-other-flag-frame-give-another-grid')
    # opposite-orientation twin: same band, other flag
    if n * m <= 300000 and rng.random() < 0.5 and c['route'] != 'backend':
        R.bucket('twin')
        other_fch1 = float(fr.fmax) if c['asc'] else float(fr.fmin)
        tw = build(stg, c, asc=not c['asc'], fch1=other_fch1)
        dfs = float(np.max(np.abs(tw.fs - fr.fs)))
        R.check(dfs <= 4 * common.ulp(fr.fmax), 'twin-axes', err=dfs)
        R.check(np.array_equal(tw.ts, fr.ts), 'twin-ts')
        j0 = int(rng.integers(0, n))
        drift = float(rng.normal()) * fr.unit_drift_rate
        width = float(rng.uniform(2, 8)) * fr.df
        sig_a = fr.add_signal(stg.constant_path(float(fr.fs[j0]), drift), stg.constant_t_profile(1.0),
                              stg.gaussian_f_profile(width), stg.constant_bp_profile(1.0))
        sig_b = tw.add_signal(stg.constant_path(float(fr.fs[j0]), drift), stg.constant_t_profile(1.0),
                              stg.gaussian_f_profile(width), stg.constant_bp_profile(1.0))
        sigma = width / 2.3548
        bound = 4 * (0.61 / sigma) * (dfs + 8 * common.ulp(fr.fmax)) + 1e-15
        err = float(np.max(np.abs(sig_a - sig_b)))
        R.check(err <= bound, 'twin-injected-data', err=err, bound=bound)
        R.check(float(np.max(sig_a)) > 0.5, 'twin-signal-present')
        R.maximum('twin_err_over_bound', err / bound)
        # ... and so do the frames DERIVED from the two: slice, de-drifted frame, integrated spectrum and time series
        tolx = 8 * common.ulp(fr.fmax)
        l_ = int(rng.integers(0, max(1, n - 1)))
        r_ = int(rng.integers(l_ + 1, n + 1))
        rate_ = float(rng.normal()) * 0.3 * fr.df / (max(m, 2) * fr.dt)
        prods = [('slice', lambda x: x.get_slice(l_, r_)), ('spectrum', lambda x: stg.spectrum(x)), ('timeseries', lambda x: stg.timeseries(x)),
                 ('integrate-f-as-frame', lambda x: stg.integrate(x, axis='f', as_frame=True))]
        if n >= 8 and m >= 2:
            prods.append(('dedrift', lambda x: stg.dedrift(x, rate_)))
        for nm_, fn_ in prods:
            with common.quiet():
                pa, pb = fn_(fr), fn_(tw)
            fa, fb = np.asarray(pa.fs, dtype=float), np.asarray(pb.fs, dtype=float)
            okx = fa.shape == fb.shape and (fa.size == 0 or float(np.max(np.abs(fa - fb))) <= tolx)
            R.check(bool(okx) and abs(float(pa.fmid) - float(pb.fmid)) <= tolx and abs(float(pa.df) - float(pb.df)) <= 4 * common.ulp(pa.df),
                    'twin-derived-frame-axes:' + nm_, fa=fa[:2].tolist(), fb=fb[:2].tolist(), fmid=[float(pa.fmid), float(pb.fmid)])
            R.check(np.array_equal(np.asarray(pa.ts), np.asarray(pb.ts)), 'twin-derived-frame-time-axis:' + nm_)
            prob_ = axes_problem(pa) if nm_ in ('slice', 'dedrift') else None
            R.check(prob_ is None, 'derived-frame-axes:' + nm_ + ':' + (prob_[0] if prob_ else 'ok'))
        fr.zero_data()

MANIFEST = {
    'text': 'Runtime monitoring: a class invariant on Frame (axes against an extended-precision/rational grid) evaluated after '
            'every public method, plus post-conditions on index/frequency conversion and derived quantities, driven over '
            'stratified random geometries, construction routes, unit forms and both orientations. Held = no monitor fired on '
            'the executions produced; this is exploration, not proof.',
    'note': '; '.join(ASSUMPTIONS),
    'technique': 'runtime invariant + post-condition monitors with exact-rational reference',
}
