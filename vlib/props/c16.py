"""C16 -- cadence injection is time-continuous and leaves frame time axes intact.

Monitor: wrapper on Cadence.add_signal that snapshots every member's ts and data and
evaluates its post-condition on normal AND exceptional exit; per-frame data delta vs R-SIG
evaluated at the frame's times shifted by (t_start_k - t_start_0). Fault workload
(level fault_enumeration): user callbacks raising on the k-th frame for every k, LINE
failpoints (sys.monitoring) inside Frame.add_signal of the k-th frame, naturally failing
array profiles. Post-conditions on overwrite_times / slew_times / consolidate.
"""
import sys
import numpy as np
from .. import common, work_sig, attach
from ..ref import sig as rsig
from . import c01

ID = 'C16'
LEVEL = 'fault_enumeration'
RULE = ('cadences of 1-7 frames (equal or unequal tchans, gaps 0..1e4 s, absolute start times ~1.7e9, slices / index lists / '
        'label subsets, t_overwrite on/off; repeated injections, half of them with the start times changed in between) x C01 signal workload (all 16 flag sets); fault sequences enumerated per cadence: '
        'each of the 4 user callbacks raising on frame k for every k, LINE failpoints at sampled (quick) / all (thorough) '
        'executed statements of Frame.add_signal in frame k, array profile that fits only the first frames; '
        'non-trivial = >=2 frames with a non-zero start offset and a non-zero reference signal, or a fault actually injected; '
        'distinct = distinct descriptor')
ASSUMPTIONS = ['time origin of a (sub)cadence is its own first frame',
               'ts restoration is judged exactly ("equals what it was before"); a deviation within 8 ulp(|offset| + max ts) gets its own key',
               'only Exception subclasses are injected',
               'on a fault in frame k: frames < k hold their full signal, frames > k are untouched; frame k itself may hold either '
               '(its data are not judged), but its ts must be restored',
               'R-SIG assumptions as in C01 (left Riemann sub-sample grids anchored at the frame\'s own, shifted, axis samples)']
KINDS = ['normal', 'normal', 'cb_path', 'cb_tprof', 'cb_fprof', 'cb_bp', 'line', 'natural', 'normal_subset', 'times']


class InjectedFault(Exception):
    pass


def required(tier):
    b = {f'kind:{k}': 3 for k in set(KINDS)}
    b.update({f'flags:{k}': 1 for k in range(16)})
    b.update({'fault-raised': 30, 'gap>0': 30, 'frames>=3': 30, 'standalone:before': 20, 'standalone:after': 20,
              'order:first-frame-is-latest': 10, 'subset-of-overwritten-cadence': 10, 'retimed-between-two-injections': 20, 'frames-with-customised-time-axis': 40, 'frames-built-from-one-background-array': 30})
    return {'buckets': b, 'counters': {'frames_compared': 300, 'ts_restore_checks': 500, 'faults_injected': 100,
                                       'line_failpoints_fired': 20}, 'checks': 2000, 'nontrivial': 100}


def gen_cases(seed, tier):
    rng = np.random.default_rng([seed, 16])
    n = 640 if tier == 'quick' else 32000
    cases = []
    for i in range(n):
        kind = KINDS[i % len(KINDS)]
        j = i // len(KINDS)
        g = work_sig.gen_geometry(rng, tier, small=True)
        g['fchans'] = min(g['fchans'], 128)
        nfr = int(rng.integers(1, 8)) if kind != 'natural' else int(rng.integers(2, 6))
        equal = bool(rng.integers(2)) if kind != 'natural' else False
        tch = [g['tchans']] * nfr if equal else [int(rng.integers(1, 13)) for _ in range(nfr)]
        if kind == 'natural':
            tch = sorted(tch)
            if tch[0] == tch[-1]:
                tch[-1] += 2
        gaps = [float(common.pick(rng, [0.0, 0.0, 1.0, 300.0, 1e4])) if rng.random() < 0.6 else float(rng.uniform(0, 1e4))
                for _ in range(nfr)]
        spec = work_sig.gen_signal(rng, g, i=j)
        opts = work_sig.gen_opts(rng, j)
        if not equal or kind == 'natural':
            if spec['path']['form'] in ('array', 'list'):
                spec['path']['form'] = 'callable'
            if spec['tprof']['form'] in ('array', 'list'):
                spec['tprof']['form'] = 'callable'
        if kind.startswith('cb_'):
            spec['path']['form'] = 'callable'
            spec['tprof']['form'] = 'callable'
            if kind == 'cb_bp':
                spec['bp']['kind'] = 'cos'
        bk = common.stratum(i, 61, work_sig.BOUND_KINDS)
        if bk in ('below', 'above', 'empty') and kind != 'normal':
            bk = 'none'
        c = dict(kind=kind, geom=g, tchans=tch, gaps=gaps, t0=float(common.pick(rng, [0.0, 1.7e9, 1.6e9 + 12345.678])),
                 spec=spec, opts=opts, bound_kind=bk, brange=work_sig.gen_bounding(rng, g, bk),
                 repeats=int(rng.integers(1, 3)), t_overwrite=bool(rng.integers(2)) if kind == 'times' else False,
                 t_slew=float(common.pick(rng, [0.0, 1.0, 123.456, 1e3])), ordered=bool(rng.integers(2)),
                 sub=int(rng.integers(2 ** 31)))
        if equal and common.stratum(j, 66, 3) == 0 and kind not in ('natural',):
            c['shared_bg'] = True
        if common.stratum(j, 65, 4) == 0 and kind not in ('natural',):
            c['ts_shift'] = float(common.pick(rng, [5.0, 0.5 * g['dt'], 1234.5]))
        if kind in ('normal', 'normal_subset'):
            c['standalone'] = common.stratum(j, 62, ['none', 'pre', 'post', 'both'])
            if kind == 'normal_subset':
                c['t_overwrite'] = bool(rng.integers(2))
            c['reverse'] = bool(common.stratum(j, 63, 5) == 2) and not c['t_overwrite']
        if kind in ('normal', 'normal_subset', 'times'):
            # start times changed between two injections into the same cadence object, membership unchanged (r10_C16_2)
            c['retime'] = common.stratum(j, 67, ['none', 'none', 'slew', 'assign'])
            if c['retime'] != 'none':
                c['repeats'] = 2
        if kind == 'line':
            c['line_points'] = [int(x) for x in rng.integers(0, 70, size=3 if tier == 'quick' else 12)]
            if tier == 'thorough' and common.stratum(j, 64, 4) == 0:
                # exhaustive: a failpoint at EVERY executed statement of Frame.add_signal, for every frame of the cadence
                c['line_points'] = list(range(0, 110))
                c['line_exhaustive'] = True
        if kind == 'normal_subset':
            c['subset'] = common.pick(rng, ['slice', 'list', 'label'])
        cases.append(c)
    return cases


def build_cadence(stg, c):
    g = c['geom']
    frames = []
    t = c['t0']
    for k, tc in enumerate(c['tchans']):
        t += c['gaps'][k] if k else 0.0
        if c.get('shared_bg') and len(set(c['tchans'])) == 1:
            # every observation starts from the same background array (one ndarray handed to each constructor)
            if k == 0:
                bg_ = np.random.default_rng(c['sub']).normal(10.0, 1.0, size=(tc, g['fchans']))
            fr = stg.Frame.from_data(g['df'], g['dt'], g['fch1'], g['asc'], bg_, seed=c['sub'] + k, t_start=t)
        else:
            fr = stg.Frame(fchans=g['fchans'], tchans=tc, df=g['df'], dt=g['dt'], fch1=g['fch1'], ascending=g['asc'],
                           seed=c['sub'] + k, t_start=t)
        if c.get('ts_shift'):
            # the frame's public time axis customised by its owner (mid-sample time stamps, an offset axis): it is what the signal
            # is evaluated on, and it is what must be there again afterwards
            fr.ts = fr.ts + c['ts_shift']
        frames.append(fr)
        t = fr.t_stop
    if c.get('reverse'):
        frames = frames[::-1]          # the cadence's first frame is the LATEST observation: offsets are negative
    # the overwrite flag as callers have it: a Python bool, a numpy bool (the result of a comparison), or 0 / 1
    tov = c['t_overwrite']
    form = c['sub'] % 3
    if form == 1:
        tov = np.bool_(tov)
    elif form == 2:
        tov = int(tov)
    if c['ordered']:
        order = 'ABACADAEAF'[:max(len(frames), 1)]
        cad = stg.OrderedCadence(frames, order=order, t_slew=c['t_slew'], t_overwrite=tov)
    else:
        cad = stg.Cadence(frames, t_slew=c['t_slew'], t_overwrite=tov)
    return cad, frames


class CadenceMonitor:
    """Post-condition of Cadence.add_signal, evaluated on normal and exceptional exit."""

    def __init__(self, stg, R):
        self.stg, self.R = stg, R
        self.frame_idx = -1           # index (within the cadence being injected) of the frame currently inside add_signal
        self.seen_ts = []
        self.last = None

    def install(self):
        def pre_c(args, kwargs):
            cad = args[0]
            self.frame_idx = -1
            self.seen_ts = []
            return dict(ts=[np.array(f.ts, dtype=float) for f in cad.frames], data=[f.data.copy() for f in cad.frames],
                        t_start=[f.t_start for f in cad.frames])

        def post_c(args, kwargs, result, exc, tok):
            cad = args[0]
            self.last = dict(pre=tok, exc=exc, failed_at=self.frame_idx if exc is not None else None,
                             frames=list(cad.frames), seen_ts=list(self.seen_ts))

        def pre_f(args, kwargs):
            self.frame_idx += 1
            self.seen_ts.append(np.array(args[0].ts, dtype=float))

        attach.wrap(self.stg.Cadence, 'add_signal', pre=pre_c, post=post_c)
        attach.wrap(self.stg.Frame, 'add_signal', pre=pre_f)


def run_case(c, R):
    stg = common.import_setigen()
    R.bucket('kind:' + c['kind'])
    if c.get('ts_shift'):
        R.bucket('frames-with-customised-time-axis')
    if c.get('shared_bg') and len(set(c['tchans'])) == 1:
        R.bucket('frames-built-from-one-background-array')
    o = c['opts']
    R.bucket(f"flags:{sum(1 << k for k, n in enumerate(('integrate_path', 'integrate_t_profile', 'integrate_f_profile', 'doppler_smearing')) if o[n])}")
    mon = CadenceMonitor(stg, R)
    try:
        _run(stg, c, R, mon)
    finally:
        attach.restore_all()
        _line_off()


def _subset(stg, c, cad):
    if c['kind'] != 'normal_subset' or len(cad) < 2:
        return cad
    if c['subset'] == 'slice':
        return cad[1:]
    if c['subset'] == 'list':
        return cad[[k for k in range(len(cad)) if k % 2 == 1] or [0]]
    if c['ordered']:
        return cad.by_label('A') if len(cad) > 2 else cad
    return cad[::2][1:] if len(cad) > 2 else cad


def _reference_for(stg, c, sub, pre, ref):
    """Expected delta per frame of the (sub)cadence, frames in order (same-seed twins advance in the same order)."""
    out = []
    t0 = pre['t_start'][0]
    for k, fr in enumerate(sub.frames):
        off = pre['t_start'][k] - t0
        ts = pre['ts'][k] + off
        fs = np.array(fr.fs, dtype=float)
        lo, hi = rsig.bounding_columns(fs, fr.df, fr.fchans, c['brange'])
        value, bound, info = rsig.evaluate(ref, ts, fs, fr.df, fr.dt, lo, hi, c['opts'])
        out.append((value, bound, off))
    return out


def _lib_objects(stg, c, fr0, ref, fault=None, mon=None):
    """Library-side objects for the whole cadence call; `fault` = (which, k) wraps one callback."""
    fs = np.array(fr0.fs, dtype=float)
    ts = np.array(fr0.ts, dtype=float)
    lo, hi = rsig.bounding_columns(fs, fr0.df, fr0.fchans, c['brange'])
    path, tprof, fprof, bp = rsig.lib_args(stg, c['spec'], ts, np.append(ts, ts[-1] + fr0.dt), fs, lo, hi, c['opts'], ref)
    if c['spec']['bp']['kind'] == 'array':
        Sf = c['opts']['f_subsamples'] if c['opts'].get('integrate_f_profile') else 1
        if not (lo == 0 and hi == fr0.fchans and Sf == 1):
            bp = ref.bp((fs[lo:hi][:, None] + np.arange(Sf)[None, :] * fr0.df / Sf).ravel())

    fired = {'fired': False}

    def faulty(fn, k):
        def wrapped(*a):
            if mon.frame_idx == k:
                mon.R.count('faults_injected')
                fired['fired'] = True
                raise InjectedFault(f'callback fault in frame {k}')
            return fn(*a)
        return wrapped
    if fault is not None:
        which, k = fault
        if which == 'cb_path':
            path = faulty(path, k)
        elif which == 'cb_tprof':
            tprof = faulty(tprof, k)
        elif which == 'cb_fprof':
            fprof = faulty(fprof, k)
        elif which == 'cb_bp':
            bp = faulty(bp, k)
    kw = dict(c['opts'])
    if c['brange'] is not None:
        kw['bounding_f_range'] = tuple(c['brange'])
    kw['_fired'] = fired
    return (path, tprof, fprof, bp), kw


_LINE = {'tool': None}


def _line_on(code, mon, target_frame, target_event):
    mo = sys.monitoring
    tool = mo.DEBUGGER_ID
    try:
        mo.use_tool_id(tool, 'verif-c16')
    except ValueError:
        pass
    state = {'n': 0, 'fired': False}

    def on_line(co, line):
        if mon.frame_idx != target_frame or state['fired']:
            return None
        if state['n'] == target_event:
            state['fired'] = True
            raise InjectedFault(f'line failpoint at line {line} (event {target_event}) in frame {target_frame}')
        state['n'] += 1
        return None
    mo.register_callback(tool, mo.events.LINE, on_line)
    mo.set_local_events(tool, code, mo.events.LINE)
    _LINE.update(tool=tool, code=code)
    return state


def _line_off():
    if _LINE.get('tool') is not None:
        mo = sys.monitoring
        try:
            mo.set_local_events(_LINE['tool'], _LINE['code'], 0)
            mo.register_callback(_LINE['tool'], mo.events.LINE, None)
            mo.free_tool_id(_LINE['tool'])
        except Exception:
            pass
        _LINE['tool'] = None


def _check_after(c, R, mon, expected, fault_frame=None, tag=''):
    """Post-condition over what the Cadence.add_signal wrapper recorded."""
    last = mon.last
    pre, frames = last['pre'], last['frames']
    exc = last['exc']
    fk = last['failed_at']
    for k, fr in enumerate(frames):
        off = pre['t_start'][k] - pre['t_start'][0]
        tol = 8 * np.spacing(abs(off) + float(np.max(np.abs(pre['ts'][k])))) * max(1, c['repeats'])
        ts_now = np.asarray(fr.ts, dtype=float)
        same_shape = ts_now.shape == pre['ts'][k].shape
        ok = same_shape and bool(np.array_equal(ts_now, pre['ts'][k]))
        R.count('ts_restore_checks')
        key = 'ts-not-restored' + ('-on-raise' if exc is not None else '')
        if not ok and same_shape and bool(np.all(np.abs(ts_now - pre['ts'][k]) <= tol)):
            key += ':perturbed-at-ulp-level'       # (ts + offset) - offset: equal only up to rounding
        R.check(ok, key, frame=k, offset=off, failed_at=fk, tag=tag,
                maxdev=float(np.max(np.abs(ts_now - pre['ts'][k]))) if same_shape else None)
        delta = fr.data - pre['data'][k]
        if exc is not None and fk is not None and k > fk:
            R.check(not np.any(delta != 0), 'frame-after-failure-modified', frame=k, failed_at=fk, tag=tag)
            continue
        if exc is not None and k == fk:
            continue
        if expected is None:
            continue
        value, bound, off2 = expected[k]
        flags = c['opts']
        struct = ''
        if off != 0 and (flags['integrate_path'] or flags['integrate_t_profile']):
            struct = ':time-integration-with-offset'
        # the signal is observed as a difference of float data: absorption of up to 1 ulp of the data on either side
        absorb = np.spacing(np.maximum(np.abs(fr.data), np.abs(pre['data'][k])))
        rsig.compare(delta, value, bound, R, 'frame-delta-differs-from-shifted-time-signal' + struct, extra=absorb,
                     frame=k, offset=off, tag=tag)
        R.count('frames_compared')
        # the ts the frame saw during injection is its own ts shifted by its offset
        if k < len(last['seen_ts']):
            seen = last['seen_ts'][k]
            R.check(bool(np.all(np.abs(seen - (pre['ts'][k] + off)) <= tol + 4 * np.spacing(abs(off) + 1.0))),
                    'frame-injected-at-wrong-time-offset', frame=k, offset=off,
                    seen0=float(seen[0]), want0=float(pre['ts'][k][0] + off))


def _run(stg, c, R, mon):
    cad, frames = build_cadence(stg, c)
    if any(gp > 0 for gp in c['gaps'][1:len(frames)]):
        R.bucket('gap>0')
    if len(frames) >= 3:
        R.bucket('frames>=3')
    # ---------------- times / consolidate clauses
    if c['kind'] == 'times':
        if c['t_overwrite'] and len(frames) > 1:
            st = cad.slew_times
            tol = 2 * np.spacing(abs(frames[-1].t_stop) + abs(c['t_slew']))
            R.check(len(st) == len(frames) - 1 and bool(np.all(np.abs(st - c['t_slew']) <= tol)),
                    'overwrite_times-slew-mismatch', got=np.asarray(st).tolist(), want=c['t_slew'])
            R.check(frames[0].t_start == c['t0'], 'overwrite_times-moved-first-frame')
        elif len(frames) > 1:
            st = cad.slew_times
            want = np.array([frames[k].t_start - frames[k - 1].t_stop for k in range(1, len(frames))])
            R.check(np.allclose(st, want, rtol=0, atol=2 * np.spacing(abs(frames[-1].t_stop))), 'slew_times-mismatch')
        cad.t_slew = c['t_slew']
        cad.overwrite_times()
        for k in range(1, len(frames)):
            want = frames[k - 1].t_start + frames[k - 1].tchans * frames[k - 1].dt + c['t_slew']
            R.check(abs(frames[k].t_start - want) <= 2 * np.spacing(abs(want)), 'overwrite_times-spacing', frame=k,
                    got=frames[k].t_start, want=want)
    mon.install()
    t_before_sel = [f.t_start for f in frames]
    sub = _subset(stg, c, cad)
    if len(sub) == 0:
        sub = cad
    R.check([f.t_start for f in frames] == t_before_sel, 'selection-moved-frames-in-time' + (':t_overwrite' if c['t_overwrite'] else ''),
            before=t_before_sel, after=[f.t_start for f in frames])
    if c.get('reverse'):
        R.bucket('order:first-frame-is-latest')
    if c['kind'] == 'normal_subset' and c['t_overwrite']:
        R.bucket('subset-of-overwritten-cadence')

    def standalone(tag):
        # the same signal injected directly into one member frame (own, unshifted time axis), before / after cadence injections
        fr_ = sub.frames[-1]
        ts_ = np.array(fr_.ts, dtype=float)
        fs_ = np.array(fr_.fs, dtype=float)
        lo_, hi_ = rsig.bounding_columns(fs_, fr_.df, fr_.fchans, c['brange'])
        ref_ = rsig.SignalRef(stg, c['spec'], (fs_[0] + fs_[-1]) / 2, max(fr_.df * fr_.fchans, fr_.df))
        if c['spec']['path']['form'] in ('array', 'list') or c['spec']['tprof']['form'] in ('array', 'list'):
            if fr_.tchans != sub.frames[0].tchans:
                return
        before_ = fr_.data.copy()
        c01.call_add_signal(fr_, stg, c['spec'], c['opts'], c['brange'], ref_, lo_, hi_)
        value_, bound_, _ = rsig.evaluate(ref_, ts_, fs_, fr_.df, fr_.dt, lo_, hi_, c['opts'])
        absorb_ = np.spacing(np.maximum(np.abs(fr_.data), np.abs(before_)))
        R.bucket('standalone:' + tag)
        rsig.compare(fr_.data - before_, value_, bound_, R, 'standalone-injection-' + tag + '-cadence-injection-differs', extra=absorb_)
        R.check(np.array_equal(np.asarray(fr_.ts), ts_), 'ts-changed-by-standalone-injection')
    fr0 = sub.frames[0]
    fs0 = np.array(fr0.fs, dtype=float)
    span = max(fr0.df * fr0.fchans, fr0.df)
    nontriv = False
    if c['kind'] in ('normal', 'normal_subset', 'times'):
        if c.get('standalone') in ('pre', 'both'):
            standalone('before')
        for rep in range(c['repeats']):
            if rep >= 1 and c.get('retime', 'none') != 'none' and len(sub) >= 2:
                if c['retime'] == 'slew':
                    sub.t_slew = c['t_slew'] + 777.0
                    sub.overwrite_times()
                else:
                    sub.frames[-1].t_start = sub.frames[-1].t_start + 4321.0
                R.bucket('retimed-between-two-injections')
            spec = c['spec'] if rep == 0 else dict(c['spec'], path=dict(c['spec']['path'], seed=c['spec']['path'].get('seed', 0) + 1))
            cc = dict(c, spec=spec)
            ref = rsig.SignalRef(stg, spec, (fs0[0] + fs0[-1]) / 2, span)
            args, kw = _lib_objects(stg, cc, fr0, ref)
            kw.pop('_fired')
            pre = dict(ts=[np.array(f.ts, dtype=float) for f in sub.frames], t_start=[f.t_start for f in sub.frames])
            expected = _reference_for(stg, cc, sub, pre, ref)
            sub.add_signal(*args, **kw)
            _check_after(dict(c, repeats=1), R, mon, expected, tag=f'rep{rep}')
            nontriv = nontriv or (len(sub) >= 2 and any(e[2] != 0 and np.any(e[0] != 0) for e in expected))
        if c.get('standalone') in ('post', 'both'):
            standalone('after')
        # consolidate
        cons = sub.consolidate()
        want = np.concatenate([f.data for f in sub.frames], axis=0)
        R.check(cons.data.shape == want.shape and np.array_equal(cons.data, want), 'consolidate-data')
        wts = np.concatenate([np.asarray(f.ts) + f.t_start for f in sub.frames])
        R.check(np.asarray(cons.ts).shape == wts.shape and bool(np.all(np.abs(cons.ts - wts) <= 2 * np.spacing(np.abs(wts)))),
                'consolidate-times')
        R.check(cons.t_start == sub.frames[0].t_start and cons.fchans == fr0.fchans and cons.tchans == sum(f.tchans for f in sub.frames),
                'consolidate-attributes')
        R.check(not np.shares_memory(cons.data, sub.frames[0].data), 'consolidate-aliases-member-data')
    elif c['kind'].startswith('cb_'):
        for k in range(len(sub)):
            ref = rsig.SignalRef(stg, c['spec'], (fs0[0] + fs0[-1]) / 2, span)
            args, kw = _lib_objects(stg, c, fr0, ref, fault=(c['kind'], k), mon=mon)
            fired = kw.pop('_fired')
            pre = dict(ts=[np.array(f.ts, dtype=float) for f in sub.frames], t_start=[f.t_start for f in sub.frames])
            expected = _reference_for(stg, c, sub, pre, ref) if c['spec']['path']['kind'] != 'rfi' and ref.tprof_twin is None else None
            raised = False
            try:
                sub.add_signal(*args, **kw)
            except InjectedFault:
                raised = True
            R.check(raised == fired['fired'], 'injected-callback-fault-swallowed', which=c['kind'], frame=k)
            if raised:
                R.bucket('fault-raised')
                nontriv = True
            R.check(mon.last is not None and (mon.last['failed_at'] == k or not raised), 'fault-frame-bookkeeping')
            _check_after(dict(c, repeats=1), R, mon, expected, tag=f'{c["kind"]}@{k}')
    elif c['kind'] == 'line':
        code = attach_unwrap(stg.Frame.add_signal).__code__
        for k in range(len(sub)):
            for ev in c['line_points']:
                ref = rsig.SignalRef(stg, c['spec'], (fs0[0] + fs0[-1]) / 2, span)
                args, kw = _lib_objects(stg, c, fr0, ref)
                kw.pop('_fired')
                state = _line_on(code, mon, k, ev)
                raised = False
                try:
                    sub.add_signal(*args, **kw)
                except InjectedFault:
                    raised = True
                finally:
                    _line_off()
                if raised:
                    R.count('line_failpoints_fired')
                    R.count('faults_injected')
                    R.bucket('fault-raised')
                    nontriv = True
                R.check(raised == state['fired'], 'line-failpoint-swallowed', frame=k, event=ev)
                if not state['fired'] and c.get('line_exhaustive'):
                    R.count('line_exhaustive_frames_completed')
                    break                      # fewer statements executed than ev: every statement of this frame has been hit
                _check_after(dict(c, repeats=1), R, mon, None, tag=f'line{ev}@{k}')
    elif c['kind'] == 'natural':
        # array time profile whose length fits only the leading frame(s)
        T0 = sub.frames[0].tchans
        fprof = stg.gaussian_f_profile(3 * fr0.df)
        raised = False
        try:
            sub.add_signal(stg.constant_path(float(fs0[len(fs0) // 2]), 0.0), np.ones(T0), fprof)
        except ValueError:
            raised = True
        firstbad = next((k for k, f in enumerate(sub.frames) if f.tchans != T0), None)
        R.check(raised == (firstbad is not None), 'natural-fault-expectation', firstbad=firstbad)
        if raised:
            R.count('faults_injected')
            R.bucket('fault-raised')
            nontriv = True
        _check_after(dict(c, repeats=1), R, mon, None, tag='natural')
    R.mark_nontrivial(nontriv)


def attach_unwrap(fn):
    while hasattr(fn, '__verif_wrapped__'):
        fn = fn.__verif_wrapped__
    return getattr(fn, '__func__', fn)


MANIFEST = {
    'text': 'Runtime monitoring with enumerated fault injection: a wrapper on Cadence.add_signal snapshots every member frame and '
            'judges its post-condition on normal and exceptional exit (ts restored, frames after the failing one untouched, '
            'per-frame delta == reference signal at shifted times). Faults: each user callback raising in frame k for every k, '
            'sys.monitoring LINE failpoints inside Frame.add_signal of frame k, naturally failing array profiles.',
    'note': '; '.join(ASSUMPTIONS),
    'technique': 'post-condition monitor (also on exceptional exit) + enumerated fault injection (callbacks, sys.monitoring LINE failpoints) + R-SIG reference',
}
