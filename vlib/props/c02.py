"""C02 -- recorded RAW samples equal the reference pipeline, whatever the partitioning.

Monitor: boundary recording at antenna_source.get_samples (sizes + copies of what was
delivered); the bytes written by RawVoltageBackend.record are parsed by the independent
GUPPI reader and compared sample by sample with R-PIPE (R-QUANT digitiser -> R-PFB
definition -> channel selection -> R-QUANT requantiser following the observed call
boundaries). Partition invariance: byte identity across every num_subblocks and several
blocks_per_file when statistics come from a common prefix.
"""
import os
import numpy as np
from .. import common, work_raw, attach
from ..ref import guppi

ID = 'C02'
LEVEL = 'exploration'
RULE = ('random admissible backend configurations (M 2..8, P 8..128, start_chan, nchan, samples-per-block = M*(1..12), blocks 1..7, '
        'blocks_per_file 1..4, num_subblocks 1..windows+2 incl. non-dividing, 1/2 pols, 1-3 antennas with delays, 8/4 bit, digitiser '
        'on/off, both orientations, refresh periods 1/-1/2/3) stratified over (pols x bits x antenna kind x orientation); every third '
        'case additionally records the same seed under EVERY num_subblocks in 1..windows-per-block(+2) and 3 blocks_per_file values with '
        'prefix statistics and demands byte identity; non-trivial = >=2 sub-blocks per block and >=2 blocks compared sample-exactly; '
        'distinct = distinct configuration')
ASSUMPTIONS = ['the samples delivered by antenna_source.get_samples are the input (their correctness is C10/C15)',
               'the PFB window is taken from the filter object (its design is C08)',
               'integer samples compared exactly except where the reference pre-rounding value is within 1e-9 of a half-integer (either neighbour accepted, counted)',
               'a digitiser tie (same band) makes the downstream comparison undecidable: the case is skipped and counted',
               'requantize=False layout (collect_data_block) is only defined for 8-bit backends']


def required(tier):
    b = {'bits:8': 20, 'bits:4': 20, 'npol:1': 20, 'npol:2': 20, 'array': 10, 'single': 20, 'orient:asc': 20, 'orient:desc': 20,
         'digitize:on': 20, 'digitize:off': 10, 'nsub-not-dividing': 10, 'multi-file': 20, 'last-file-partial': 10,
         'partition-sweep': 20, 'second-recording-same-backend': 10, 'collect-direct': 10, 'digitiser:wider-than-8-bits': 15, 'header:512-aligned+directio': 30,
         'voltages:tiny-units': 20, 'voltages:large-dc-level': 20}
    return {'buckets': b, 'counters': {'samples_compared': 100000, 'recordings': 300, 'partition_recordings': 200},
            'checks': 500, 'nontrivial': 50}


def gen_cases(seed, tier):
    rng = np.random.default_rng([seed, 2])
    n = 420 if tier == 'quick' else 15000
    cases = []
    for i in range(n):
        cfg = work_raw.gen_config(rng, tier, i=i)
        mode = common.stratum(i, 1, ['plain', 'partition', 'twice', 'direct', 'partition', 'partition'])
        cases.append(dict(cfg=cfg, mode=mode))
    return cases


def compare_recording(R, cfg, rec, window, tag=''):
    """Decoded file content vs R-PIPE. Returns concatenated data bytes."""
    sz = work_raw.sizes(cfg)
    try:
        blocks = work_raw.read_blocks(rec['files'])
    except guppi.GuppiError as e:
        R.violate('unparseable-recording:' + e.key, msg=str(e), tag=tag)
        return None
    R.count('recordings')
    if not R.check(len(blocks) == cfg['nblocks'], 'block-count', got=len(blocks), want=cfg['nblocks'], tag=tag):
        return None
    delivered = rec['delivered']
    P, M = cfg['P'], cfg['M']
    total = sum(n for n, _ in delivered)
    R.check(total == cfg['nblocks'] * sz['spb'] * P + M * P and all(n % (M * P) == 0 for n, _ in delivered),
            'antenna-sample-ledger', total=total, want=cfg['nblocks'] * sz['spb'] * P + M * P, tag=tag)
    exp, ties, info = work_raw.expected_blocks(cfg, delivered, window)
    if info['dig_ties']:
        R.count('cases_skipped_digitiser_tie')
        return b''.join(b['data'] for b in blocks)
    obsnchan = cfg['nants'] * cfg['nchan']
    nbad_total = 0
    for bi, blk in enumerate(blocks):
        if not R.check(len(blk['data']) == sz['block_size'], 'blocsize', got=len(blk['data']), tag=tag):
            return None
        got = guppi.decode_block(blk['data'], obsnchan, cfg['npol'], cfg['bits'])
        diff = (got != exp[bi])
        near = np.abs(got - exp[bi]) <= 1.5          # a tie may move re or im by one
        bad = diff & ~(ties[bi] & near)
        R.count('samples_compared', int(got.size))
        R.count('ties', int((diff & ties[bi]).sum()))
        if bad.any():
            nbad_total += int(bad.sum())
            c_, t_, p_ = np.argwhere(bad)[0]
            struct = []
            nsub_eff = len(delivered) // cfg['nblocks']
            if cfg['bits'] == 4:
                struct.append('4bit')
            R.violate('sample-mismatch' + (':' + '+'.join(struct) if struct else ''), block=bi, chan=int(c_), time=int(t_), pol=int(p_),
                      got=complex(got[c_, t_, p_]), want=complex(exp[bi][c_, t_, p_]), nbad=int(bad.sum()),
                      calls_per_block=nsub_eff, spb=sz['spb'], tag=tag,
                      first_bad_times=sorted(set(int(x) for x in np.argwhere(bad)[:, 1]))[:8])
            break
    if nbad_total == 0:
        R.check(True, 'sample-mismatch')
    return b''.join(b['data'] for b in blocks)


def run_case(c, R):
    stg = common.import_setigen()
    cfg = c['cfg']
    tmp = os.environ['VERIF_TMP']
    sz = work_raw.sizes(cfg)
    R.bucket(f"bits:{cfg['bits']}")
    R.bucket(f"npol:{cfg['npol']}")
    R.bucket('array' if cfg['nants'] > 1 else 'single')
    R.bucket('orient:asc' if cfg['asc'] else 'orient:desc')
    if cfg.get('vscale', 1.0) != 1.0:
        R.bucket('voltages:tiny-units')
    if cfg.get('dc', 0.0):
        R.bucket('voltages:large-dc-level')
    R.bucket('digitize:on' if cfg['digitize'] else 'digitize:off')
    if cfg['digitize'] and cfg['dig_bits'] > 8:
        R.bucket('digitiser:wider-than-8-bits')
    returns = []

    def post(args, kwargs, result, exc, tok):
        if exc is None:
            returns.append(np.array(result, copy=True))
    attach.wrap(stg.voltage.RawVoltageBackend, 'collect_data_block', post=post)
    try:
        stem = os.path.join(tmp, f"c02_{c['_idx']}_a")
        hd = None
        if c['_idx'] % 6 == 5:
            # the payload sits where the format says for EVERY header length: here exactly k*512 bytes (no padding even with DIRECTIO)
            hd = {'DIRECTIO': 1}
            base = 15 + (1 if cfg['nants'] > 1 else 0) + 1 + 1          # configuration cards (+ NANTS) + DIRECTIO + END
            for k_ in range((-base) % 32):
                hd[f'FILL{k_:03d}'] = k_
            R.bucket('header:512-aligned+directio')
        rec = work_raw.do_record(stg, cfg, stem, header_dict=hd)
        rvb = rec['rvb']
        if hd is not None:
            with open(rec['files'][0], 'rb') as fh_:
                first_ = fh_.read(80 * 200)
            R.check(first_.find(b'END' + b' ' * 77) % 512 == 512 - 80, 'harness:header-not-aligned-as-intended')
        window = np.array(rvb.filterbank[0][0].window, dtype=float)
        # the reference pipeline uses the object's coefficients; that they ARE the configured design (windowed-sinc low-pass of the
        # named window -- C08's clause) is checked here as well, for every antenna and polarisation: a recording made with another
        # filter than the configured one is not "the PFB output of the configured backend"
        from ..ref import pfb_def as _rp
        ref_w = _rp.lowpass_window(cfg['M'], cfg['P'], cfg['window'])
        tol_w = (256 + 4 * cfg['M'] * cfg['P']) * _rp.EPS * float(np.max(np.abs(ref_w)))
        for row_ in rvb.filterbank:
            for fb_ in row_:
                w_ = np.asarray(fb_.window, dtype=float)
                R.check(w_.shape == ref_w.shape and float(np.max(np.abs(w_ - ref_w))) <= tol_w, 'filterbank-window-is-not-the-configured-design',
                        window=cfg['window'], M=cfg['M'], P=cfg['P'])
        calls_per_block = len(rec['delivered']) / cfg['nblocks']
        if cfg['mult'] % max(1, int(round(calls_per_block))) or cfg['nsub'] > cfg['mult']:
            R.bucket('nsub-not-dividing')
        if len(rec['files']) > 1:
            R.bucket('multi-file')
        if cfg['nblocks'] % cfg['bpf']:
            R.bucket('last-file-partial')
        data0 = compare_recording(R, cfg, rec, window, tag='first')
        # files hold blocks_per_file blocks each
        want_files = -(-cfg['nblocks'] // cfg['bpf'])
        R.check(len(rec['files']) == want_files, 'file-count', got=len(rec['files']), want=want_files)
        # collect_data_block return value == what was written
        if data0 is not None and len(returns) == cfg['nblocks']:
            got = b''.join(np.asarray(r).astype(np.int8).tobytes() for r in returns)
            R.check(got == data0, 'collect_data_block-return-differs-from-file')
        R.mark_nontrivial(calls_per_block >= 2 and cfg['nblocks'] >= 2 and R.counters.get('samples_compared', 0) > 0)
        for f in rec['files']:
            os.remove(f)
        if c['mode'] == 'twice':
            R.bucket('second-recording-same-backend')
            returns.clear()
            stem2 = os.path.join(tmp, f"c02_{c['_idx']}_b")
            rec2 = work_raw.do_record(stg, cfg, stem2, rvb=rvb, src=rec['src'])
            compare_recording(R, cfg, rec2, window, tag='second-on-same-backend')
            for f in rec2['files']:
                os.remove(f)
        elif c['mode'] == 'direct' and cfg['bits'] == 8:
            R.bucket('collect-direct')
            rvb3, src3 = work_raw.build(stg, cfg)
            bd = work_raw.Boundary(src3)
            with common.quiet():
                v = rvb3.collect_data_block(digitize=False, requantize=False, verbose=False)
                # between two blocks of one stream the user asks a filterbank for its unit-noise estimate (an uncached
                # channelisation on the same object): the stream must continue undisturbed
                rvb3.filterbank[0][0].estimate_channelized_stds(factor=30, seed=1)
                v2 = rvb3.collect_data_block(digitize=False, requantize=False, verbose=False)
            bd.detach()
            from ..ref import pfb as rpfb
            obsn = cfg['nants'] * cfg['nchan']
            R.check(np.shape(v) == (obsn, sz['block_size'] // obsn), 'collect-direct-shape', shape=list(np.shape(v)))
            for bi_, vv in enumerate((v, v2)):
                okall = True
                for a in range(cfg['nants']):
                    for p in range(cfg['npol']):
                        stream = np.concatenate([np.asarray(arr[a][p]) for _, arr in bd.log])
                        X = rpfb.ref_pfb(stream, window, cfg['M'], cfg['P'])[bi_ * sz['spb']:(bi_ + 1) * sz['spb'],
                                                                               cfg['start_chan']:cfg['start_chan'] + cfg['nchan']]
                        sub = np.asarray(vv)[a * cfg['nchan']:(a + 1) * cfg['nchan']]
                        re = sub[:, 2 * p::2 * cfg['npol']]
                        im = sub[:, 2 * p + 1::2 * cfg['npol']]
                        # ... plus the rounding of the FIR + DFT sums themselves, which scales with the INPUT (a large DC level is
                        # suppressed in these channels by cancellation, its rounding error is not): 16 eps max|x| sum|h|
                        tol = 1e-9 * max(1.0, float(np.max(np.abs(X)))) + 16 * np.finfo(float).eps * float(np.max(np.abs(stream))) * float(np.sum(np.abs(window)))
                        if re.shape != X.T.shape or np.max(np.abs(re - X.real.T)) > tol or np.max(np.abs(im - X.imag.T)) > tol:
                            okall = False
                R.check(okall, 'collect-direct-unquantised-values' + (':block-after-uncached-filterbank-call' if bi_ else ''))
        elif c['mode'] == 'partition':
            R.bucket('partition-sweep')
            base = dict(cfg, period_dig=-1, period_rq=-1, N_dig=cfg['P'] * cfg['M'], N_rq=cfg['M'])
            ref_bytes, ref_desc = None, None
            nsubs = list(range(1, cfg['mult'] + 1)) + [cfg['mult'] + 2]
            bpfs = sorted({1, 2, cfg['nblocks'] + 1})
            combos = [(ns, base['bpf']) for ns in nsubs] + [(base['nsub'], bp) for bp in bpfs]
            for k, (ns, bp) in enumerate(combos):
                cc = dict(base, nsub=ns, bpf=bp)
                stem3 = os.path.join(tmp, f"c02_{c['_idx']}_p{k}")
                r3 = work_raw.do_record(stg, cc, stem3)
                R.count('partition_recordings')
                try:
                    data = b''.join(b['data'] for b in work_raw.read_blocks(r3['files']))
                except guppi.GuppiError as e:
                    R.violate('unparseable-recording:' + e.key, msg=str(e), nsub=ns, bpf=bp)
                    data = None
                if k == 0:
                    # the first one is also judged against R-PIPE so that "all equal" cannot mean "all equally wrong"
                    compare_recording(R, cc, r3, window, tag='partition-base')
                    ref_bytes, ref_desc = data, (ns, bp)
                elif data is not None and ref_bytes is not None:
                    same = (data == ref_bytes)
                    if not same:
                        a_ = np.frombuffer(data, np.int8)
                        b_ = np.frombuffer(ref_bytes, np.int8)
                        nd = int((a_ != b_).sum()) if a_.size == b_.size else -1
                        R.violate('bytes-depend-on-partition', nsub=ns, bpf=bp, ref=ref_desc, ndiff=nd, size=int(a_.size),
                                  first=int(np.argmax(a_ != b_)) if nd > 0 else None)
                    else:
                        R.check(True, 'bytes-depend-on-partition')
                for f in r3['files']:
                    os.remove(f)
    finally:
        attach.restore_all()


MANIFEST = {
    'text': 'Runtime monitoring with boundary recording: the samples the antenna actually delivered to the real recording loop are fed '
            'to an independent pipeline (quantiser automaton, FIR+DFT-matrix PFB, GUPPI packing) and every decoded sample of every '
            'recorded block is compared; byte identity is demanded across every num_subblocks / several blocks_per_file under prefix statistics.',
    'note': '; '.join(ASSUMPTIONS),
    'technique': 'boundary-recorded event log checked offline against an executable reference pipeline; cross-partition byte identity',
}
