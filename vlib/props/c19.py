"""C19 -- splitting utilities tile the band and the array exactly.

Monitor: post-conditions on split_waterfall_generator (consumed fully, bounded), split_fil,
the two consumers (get_parameter_distributions, get_mean_distribution) and split_array, against
R-SPLIT: an index-level reference written from the property text. The input file is read back by
an independent sigproc parser (header fch1/foff/nchans + data in file order), so "file channel j"
means column j of that parse with frequency fch1 + j*foff evaluated in exact rationals, however
the file was produced (independent writer or Frame.save_fil). Arrays are index coded (element =
its row-major position) so that every returned tile says where it came from.
"""
import os
import shutil
import struct
import pathlib
from fractions import Fraction
import numpy as np

from .. import common

ID = 'C19'
LEVEL = 'exploration'
RULE = ('stratified by case index: API {generator, split_fil, get_parameter_distributions, get_mean_distribution, split_array}; '
        'files: orientation x writer {independent sigproc writer, Frame.save_fil} x fit {single piece, exact multiple, remainder} x '
        'shift {default, = fchans, < fchans, > fchans} x tchans {default, all, fewer} x header {ugly realistic floats, dyadic '
        '(exact float arithmetic), log-uniform random}, nchans up to ~4000, 1..16 integrations; arrays 1..40 x 1..40: trim flags '
        '(4) x shift mode {default, explicit = tile, mixed, overlap, other} x size class {dividing, ragged t/f/both, oversize, '
        'default size}; non-trivial = >=2 expected pieces/tiles (or a piece compared element-wise); distinct = distinct descriptor')
ASSUMPTIONS = [
    'file channel j of a sigproc filterbank file = column j of every spectrum, at frequency fch1 + j*foff (MHz), evaluated in exact '
    'rationals from the header as parsed by an independent reader; a Frame built from a piece lists channels in ascending frequency',
    'frequencies of a piece are compared with tolerance 1e-3*|foff|; the generator keeps ulp(fch1)/|foff| <= min(1e-5, 0.02/pieces) so '
    'that float evaluation error (<= 16 ulp) stays 6x below it and accumulated error stays far from a channel boundary',
    'tchans omitted/None = all integrations of the file; f_shift omitted/None = fchans',
    'piece count short by one on an exact fit is attributed to float accumulation (split-count-float-termination) only if fch1/foff '
    'are NOT dyadic rationals for which every frequency sum is exact; otherwise it is keyed piece-count:*',
    'split_array trimming is per axis: t_trim keeps tiles with the full number of rows, f_trim those with the full number of columns; '
    'the result may be any sequence (3-D array, object array, list) whose items are the tiles',
    'split_array with shift != tile size is outside the partition clause: only block content, size <= tile, truncation only at the '
    'array edge, origin on the shift grid and trimmed sizes are checked on non-empty tiles; raising there for ragged tiles is still '
    'counted under split-array-ragged',
    'consumer values are only range-checked (mean/min within [min,max] of the piece, std <= half its range): a statistic of a '
    'non-empty subset of the piece cannot leave that range',
]

KINDS = ['array', 'gen', 'array', 'fil', 'gen', 'array', 'params', 'gen', 'mean', 'array']
FITS = ['single', 'exact', 'remainder']
SHIFTS = ['none', 'eq', 'lt', 'gt']
TSELS = ['none', 'full', 'partial']
HDRS = ['ugly', 'dyadic', 'random']
AMODES = ['default', 'equal', 'mixed', 'overlap', 'other']
ASIZES = ['divides', 'ragged-both', 'ragged-t', 'ragged-f', 'oversize', 'default-size']


def required(tier):
    b = {f'api:{k}': 100 for k in ('gen', 'fil', 'params', 'mean', 'array')}
    b.update({f'api-x-orientation:{k}:{o}': 50 for k in ('gen', 'fil', 'params', 'mean') for o in ('asc', 'desc')})
    b.update({'orient:asc': 200, 'orient:desc': 200, 'route:raw': 200, 'route:save_fil': 200})
    b.update({f'fit:{k}': 100 for k in FITS})
    b.update({f'shift:{k}': 100 for k in SHIFTS})
    b.update({f'tsel:{k}': 100 for k in TSELS})
    b.update({f'hdr:{k}': 100 for k in HDRS})
    b.update({'hdr-arith:exact': 50, 'hdr-arith:inexact': 200, 'exact-fit:arith-exact': 15, 'exact-fit:arith-inexact': 100})
    b.update({f'trim:{k}': 200 for k in ('00', '01', '10', '11')})
    b.update({f'amode:{k}': 100 for k in AMODES})
    b.update({f'asize:{k}': 100 for k in ASIZES})
    b.update({'array:partition-mode': 800, 'array:ragged-expected': 100, 'array:uniform-expected': 300,
              'array:empty-expected': 10, 'array:nonsquare-tiles': 300, 'fil:output-dir-already-populated': 50, 'input-path-rewritten': 200, 'piece-used-again-after-a-frame-was-built': 300, 'blanked-sub-band-coincides-with-a-piece': 100})
    return {'buckets': b, 'counters': {'pieces_compared': 10000, 'frames_built': 1000, 'files_loaded': 500,
                                       'tiles_compared': 5000},
            'checks': 20000, 'nontrivial': 1000}


# ------------------------------------------------------------------ workload

def _file_case(rng, q, tier):
    asc = bool(q % 2)
    hdr = HDRS[q % 3]
    route = ['raw', 'save_fil'][(q // 6) % 2]
    fit = FITS[(q // 12) % 3]
    shift = SHIFTS[(q // 36) % 4]
    tsel = TSELS[(q // 144) % 3]
    nmax = 2048
    if rng.random() < 0.3:
        fch = int(common.pick(rng, [1, 2, 3, 4, 7, 8, 16, 32, 51, 64, 100, 128, 256, 512, 1024]))
    elif rng.random() < 0.1:
        fch = int(rng.integers(1, 1500))
    else:
        fch = int(rng.integers(1, 200))
    need = 1
    if shift == 'lt':
        need = 2
    if fit == 'remainder':
        need = 3 if shift == 'lt' else 2
    if fch < need:
        fch = int(rng.integers(need, 50))
    if shift in ('none', 'eq'):
        s = fch
    elif shift == 'lt':
        s = int(rng.integers(2 if fit == 'remainder' else 1, fch))
    else:
        s = fch + int(rng.integers(1, fch + 2))
    if fit == 'single':
        nch = fch if (s == 1 or rng.random() < 0.5) else fch + int(rng.integers(1, s))
    else:
        cap = 500 if rng.random() < 0.04 else 60
        kmax = max(1, min(cap, (nmax - fch) // s))
        k = int(rng.integers(1, 4)) if rng.random() < 0.3 else int(rng.integers(1, kmax + 1))
        nch = fch + k * s + (0 if fit == 'exact' else int(rng.integers(1, s)))
    pieces = (nch - fch) // s + 1
    T = int(common.pick(rng, [1, 2, 3, 4, 8, 16])) if rng.random() < 0.5 else int(rng.integers(1, 17))
    if tsel == 'partial':
        T = max(T, 2)
        tch = int(rng.integers(1, T))
    elif tsel == 'full':
        tch = T
    else:
        tch = None
    # header, MHz
    if hdr == 'ugly':
        df = float(common.pick(rng, common.UGLY_DF)) * 1e-6
        fch1 = float(common.pick(rng, common.UGLY_FCH1)) * 1e-6
    elif hdr == 'dyadic':
        df = 2.0 ** -int(rng.integers(8, 21))
        fch1 = int(rng.integers(100 * 1024, 40000 * 1024)) / 1024.0
    else:
        df = float(10 ** rng.uniform(-2, 6)) * 1e-6
        fch1 = float(10 ** rng.uniform(7, 10.69)) * 1e-6
    if not asc and fch1 - (nch + 1) * df < 1.0:
        fch1 = float(np.ceil((nch + 1) * df + 10.0))
    top = fch1 + (nch + 1) * df if asc else fch1
    while common.ulp(top) / df > min(1e-5, 0.02 / pieces):
        df *= 2.0
        if not asc and fch1 - (nch + 1) * df < 1.0:
            fch1 = float(np.ceil((nch + 1) * df + 10.0))
        top = fch1 + (nch + 1) * df if asc else fch1
    return dict(asc=asc, hdr=hdr, route=route, fit=fit, shift=shift, tsel=tsel, nch=nch, fch=fch, s=s, T=T, tch=tch,
                fch1=fch1, df=df, tsamp=float(common.pick(rng, common.UGLY_DT)), tstart=58000.0 + float(rng.uniform(0, 3000)),
                extras=int(rng.integers(4)), explicit_none=bool(rng.integers(2)), outdir_path=bool(rng.integers(2)),
                sub=int(rng.integers(2 ** 31)))


def _array_case(rng, q, tier):
    trims = q % 4
    amode = AMODES[(q // 4) % 5]
    asize = ASIZES[(q // 20) % 6]
    H, W = int(rng.integers(1, 41)), int(rng.integers(1, 41))
    th = tw = None

    def dividing(n):
        ds = [d for d in range(1, n + 1) if n % d == 0]
        return int(common.pick(rng, ds))

    def ragged(n):
        cs = [d for d in range(1, n + 1) if n % d != 0]
        return int(common.pick(rng, cs)) if cs else None

    if asize == 'divides':
        th, tw = dividing(H), dividing(W)
    elif asize in ('ragged-both', 'ragged-t', 'ragged-f'):
        if asize != 'ragged-f':
            H = max(H, 3)
            th = ragged(H)
        else:
            th = dividing(H)
        if asize != 'ragged-t':
            W = max(W, 3)
            tw = ragged(W)
        else:
            tw = dividing(W)
    elif asize == 'oversize':
        which = int(rng.integers(1, 4))
        th = H + int(rng.integers(1, 3)) if which & 1 else int(rng.integers(1, H + 1))
        tw = W + int(rng.integers(1, 3)) if which & 2 else int(rng.integers(1, W + 1))
    else:   # default-size on at least one axis
        which = int(rng.integers(1, 4))
        th = None if which & 1 else int(rng.integers(1, H + 3))
        tw = None if which & 2 else int(rng.integers(1, W + 3))
    eth, etw = (th or H), (tw or W)
    ts = fs = None
    if amode == 'equal':
        ts, fs = eth, etw
    elif amode == 'mixed':
        if rng.integers(2):
            ts = eth
        else:
            fs = etw
    elif amode == 'overlap':
        which = int(rng.integers(1, 4))
        if eth < 2 and etw < 2:
            if rng.integers(2):
                H = max(H, 2)
                th = eth = int(rng.integers(2, H + 1))
            else:
                W = max(W, 2)
                tw = etw = int(rng.integers(2, W + 1))
        if which & 1 and eth >= 2:
            ts = int(rng.integers(1, eth))
        if which & 2 and etw >= 2:
            fs = int(rng.integers(1, etw))
        if ts is None and fs is None:
            if eth >= 2:
                ts = int(rng.integers(1, eth))
            else:
                fs = int(rng.integers(1, etw))
    elif amode == 'other':
        ts = int(rng.integers(1, eth + 4))
        fs = int(rng.integers(1, etw + 4))
        if ts == eth and fs == etw:
            fs = etw + 1
    return dict(H=H, W=W, th=th, tw=tw, ts=ts, fs=fs, t_trim=bool(trims & 2), f_trim=bool(trims & 1), amode=amode, asize=asize,
                dtype=str(common.pick(rng, ['int64', 'float64', 'float32'])), omit_none=bool(rng.integers(2)))


def gen_cases(seed, tier):
    rng = np.random.default_rng([seed, 19])
    n = 6000 if tier == 'quick' else 300000
    cases = []
    qk = {}
    for i in range(n):
        kind = KINDS[i % 10]
        q = qk.get(kind, 0)          # one stratum counter PER API, so that every API meets every orientation / writer / fit
        qk[kind] = q + 1
        if kind == 'array':
            c = _array_case(rng, q, tier)
        else:
            c = _file_case(rng, q, tier)
        c['kind'] = kind
        cases.append(c)
    return cases


# ------------------------------------------------------------------ independent sigproc reader / writer

_INT = {'telescope_id', 'machine_id', 'data_type', 'barycentric', 'pulsarcentric', 'nbits', 'nsamples', 'nchans', 'nifs',
        'nbeams', 'ibeam'}
_DBL = {'az_start', 'za_start', 'src_raj', 'src_dej', 'tstart', 'tsamp', 'fch1', 'foff', 'refdm', 'period'}
_STR = {'rawdatafile', 'source_name'}


def _s(k):
    b = k if isinstance(k, bytes) else k.encode('ascii')
    return struct.pack('<i', len(b)) + b


def write_fil(path, data, fch1, foff, tsamp, tstart, extras=0):
    """data: (T, nchans) in file order."""
    T, n = data.shape
    h = _s('HEADER_START')
    if extras & 1:
        h += _s('rawdatafile') + _s('guppi_58000_00000_TEST_0001.0000.raw')
    h += _s('telescope_id') + struct.pack('<i', 6) + _s('machine_id') + struct.pack('<i', 10)
    h += _s('data_type') + struct.pack('<i', 1)
    h += _s('source_name') + _s('VOYAGER-1' if extras & 2 else 'src')
    if extras & 2:
        h += _s('src_raj') + struct.pack('<d', 171012.5) + _s('src_dej') + struct.pack('<d', 121044.2)
        h += _s('az_start') + struct.pack('<d', 0.0) + _s('za_start') + struct.pack('<d', 0.0)
    h += _s('fch1') + struct.pack('<d', fch1) + _s('foff') + struct.pack('<d', foff)
    h += _s('nchans') + struct.pack('<i', n) + _s('nbits') + struct.pack('<i', 32)
    h += _s('tstart') + struct.pack('<d', tstart) + _s('tsamp') + struct.pack('<d', tsamp)
    if extras & 1:
        h += _s('nbeams') + struct.pack('<i', 1) + _s('ibeam') + struct.pack('<i', 1)
    h += _s('nifs') + struct.pack('<i', 1) + _s('HEADER_END')
    with open(path, 'wb') as f:
        f.write(h)
        f.write(np.ascontiguousarray(data, dtype='<f4').tobytes())


def parse_fil(path):
    """Independent sigproc reader: (header dict, data (T, nchans) in file order)."""
    raw = open(path, 'rb').read()
    pos = 0

    def rstr():
        nonlocal pos
        (n,) = struct.unpack_from('<i', raw, pos)
        pos += 4
        if not 0 < n < 256:
            raise ValueError(f'bad string length {n} at {pos - 4}')
        s = raw[pos:pos + n].decode('ascii')
        pos += n
        return s

    if rstr() != 'HEADER_START':
        raise ValueError('no HEADER_START')
    hdr = {}
    while True:
        k = rstr()
        if k == 'HEADER_END':
            break
        if k in _INT:
            (hdr[k],) = struct.unpack_from('<i', raw, pos)
            pos += 4
        elif k in _DBL:
            (hdr[k],) = struct.unpack_from('<d', raw, pos)
            pos += 8
        elif k in _STR:
            hdr[k] = rstr()
        else:
            raise ValueError(f'unknown keyword {k!r}')
    if hdr.get('nbits') != 32 or hdr.get('nifs', 1) != 1:
        raise ValueError(f'unsupported nbits/nifs {hdr.get("nbits")}/{hdr.get("nifs")}')
    n = hdr['nchans']
    body = np.frombuffer(raw, dtype='<f4', offset=pos)
    if n <= 0 or body.size % n:
        raise ValueError(f'data size {body.size} not a multiple of nchans {n}')
    return hdr, body.reshape(-1, n)


# ------------------------------------------------------------------ R-SPLIT (files)

class FileRef:
    def __init__(self, hdr, data, fch, s, tch):
        self.hdr, self.data = hdr, data
        self.T, self.nch = data.shape
        self.fch, self.s = fch, s
        self.rows = self.T if tch is None else tch
        self.want = (self.nch - fch) // s + 1
        self.F1, self.D = Fraction(hdr['fch1']), Fraction(hdr['foff'])
        self.exact_fit = (self.nch - fch) % s == 0
        self.tol_mhz = 1e-3 * abs(hdr['foff'])
        # are all frequency sums exactly representable (dyadic header)?  property of the input only
        m = max(self.F1.denominator, self.D.denominator).bit_length() - 1
        big = (abs(self.F1) + (self.nch + fch + s + 2) * abs(self.D)) * 2 ** m
        self.arith_exact = big < 2 ** 52

    def piece(self, i):
        return self.data[:self.rows, i * self.s:i * self.s + self.fch]

    def freq_mhz(self, j):
        return self.F1 + j * self.D

    def frame_view(self, i):
        """(data, freqs in Hz as Fractions) of piece i in ascending frequency order."""
        js = list(range(i * self.s, i * self.s + self.fch))
        d = self.piece(i)
        if self.D < 0:
            js = js[::-1]
            d = d[:, ::-1]
        return d, [self.freq_mhz(j) * 10 ** 6 for j in js]

    def count_key(self, got):
        """None if the count is right, else the mechanism key."""
        if got == self.want:
            return None
        if got == self.want - 1 and self.exact_fit and not self.arith_exact:
            return 'split-count-float-termination'
        kind = 'short' if got < self.want else 'long'
        return f'piece-count:{kind}:' + ('exact-fit' if self.exact_fit else 'remainder')

    def locate(self, d2):
        """Where does a (rows, cols) block come from? index-coded input: value = 1 + row*nch + channel."""
        if d2.size == 0:
            return None
        v = int(round(float(d2.flat[0]))) - 1
        return divmod(v, self.nch)


def _check_count(R, ref, got, what):
    key = ref.count_key(got)
    R.check(key is None, key or 'piece-count', api=what, got=got, want=ref.want, nchans=ref.nch, fchans=ref.fch, shift=ref.s,
            fch1=ref.hdr['fch1'], foff=ref.hdr['foff'], arith_exact=ref.arith_exact)
    return key is None


def _check_block(R, ref, i, d2, prefix):
    """d2: (rows, cols) in file order, expected = ref.piece(i). Returns True if equal."""
    want = ref.piece(i)
    if d2.shape != want.shape:
        if d2.shape[0] != want.shape[0]:
            R.violate(prefix + '-tchans', piece=i, got=list(d2.shape), want=list(want.shape), file_T=ref.T)
        if d2.shape[1:] != want.shape[1:]:
            R.violate(prefix + '-fchans', piece=i, got=list(d2.shape), want=list(want.shape))
        return False
    if np.array_equal(d2, want):
        R.check(True, prefix + '-data')
        return True
    loc = ref.locate(d2)
    if loc is not None and loc[1] != i * ref.s:
        key = prefix + '-data:wrong-channels'
    elif loc is not None and loc[0] != 0:
        key = prefix + '-data:wrong-integrations'
    else:
        key = prefix + '-data:content'
    R.violate(key, piece=i, first_element_from=list(loc) if loc else None, want_from=[0, i * ref.s],
              nbad=int((d2 != want).sum()))
    return False


def _check_frame(R, stg, ref, i, source, prefix):
    """Build a Frame from a piece (Waterfall or file name) and compare data/frequencies (ascending order)."""
    with common.quiet():
        fr = stg.Frame(waterfall=source)
    R.count('frames_built')
    wd, wf = ref.frame_view(i)
    fd = np.asarray(fr.data)
    ok = R.check(fd.shape == wd.shape, prefix + '-shape', piece=i, got=list(fd.shape), want=list(wd.shape))
    if ok:
        R.check(np.array_equal(fd, wd), prefix + '-data', piece=i, orientation='asc' if ref.D > 0 else 'desc')
    fs = np.asarray(fr.fs, dtype=float)
    if R.check(fs.shape == (len(wf),), prefix + '-frequencies:length', piece=i, got=list(fs.shape), want=len(wf)):
        tol = ref.tol_mhz * 1e6
        errs = [abs(Fraction(float(a)) - b) for a, b in zip(fs, wf)]
        worst = float(max(errs))
        R.maximum('freq_err_over_tol', worst / tol)
        R.check(worst <= tol, prefix + '-frequencies', piece=i, err_hz=worst, tol_hz=tol, err_channels=worst / (tol * 1e3),
                got_first=float(fs[0]), want_first=float(wf[0]))


def _subset(rng, n, k=6):
    if n <= 0:
        return []
    idx = {0, n - 1, n // 2}
    idx.update(int(x) for x in rng.integers(0, n, size=k))
    return sorted(j for j in idx if 0 <= j < n)


def run_file(c, R, stg):
    rng = np.random.default_rng(c['sub'])
    tmp = os.environ['VERIF_TMP']
    tag = f"c19_{os.getpid()}_{c.get('_idx', 0)}"
    path = os.path.join(tmp, tag + '.fil')
    outdir = os.path.join(tmp, tag + '_out')
    nch, fch, s, T, tch = c['nch'], c['fch'], c['s'], c['T'], c['tch']
    foff = c['df'] if c['asc'] else -c['df']
    coded = (1 + np.arange(T)[:, None] * nch + np.arange(nch)[None, :]).astype(np.float32)
    n_pieces_ = (nch - fch) // s + 1 if nch >= fch and s >= 1 else 0
    if c['kind'] in ('params', 'mean') and c.get('_idx', 0) % 3 == 1 and n_pieces_ >= 2:
        # a blanked (constant) sub-band that coincides with one piece of the split: it is still a piece, with its own entry
        i_b = n_pieces_ // 2
        coded[:, i_b * s:i_b * s + fch] = 7.0
        R.bucket('blanked-sub-band-coincides-with-a-piece')
    for k in ('kind', 'route', 'fit', 'shift', 'tsel', 'hdr'):
        R.bucket(('api' if k == 'kind' else k) + ':' + c[k])
    R.bucket('orient:asc' if c['asc'] else 'orient:desc')
    R.bucket(f"api-x-orientation:{c['kind']}:{'asc' if c['asc'] else 'desc'}")
    try:
        if c.get('_idx', 0) % 4 == 1:
            # history: this very path held ANOTHER observation (other geometry and header) that the library has already split
            R.bucket('input-path-rewritten')
            d_nch, d_T = nch + 7 + (nch % 5), max(1, T - 1) + 2
            d_fch = max(1, min(fch + 1, d_nch))
            write_fil(path, np.ones((d_T, d_nch), dtype=np.float32), c['fch1'] + 11.0, -foff * 2, c['tsamp'] * 3, c['tstart'], c['extras'])
            with common.quiet():
                for _k, _wf in enumerate(stg.split_waterfall_generator(path, d_fch)):
                    if _k >= 2:
                        break
            os.remove(path)
        if c['route'] == 'raw':
            write_fil(path, coded, c['fch1'], foff, c['tsamp'], c['tstart'], c['extras'])
        else:
            arr = coded if c['asc'] else coded[:, ::-1]
            fr0 = stg.Frame.from_data(c['df'] * 1e6, c['tsamp'], c['fch1'] * 1e6, c['asc'], np.array(arr, dtype=float))
            with common.quiet():
                fr0.save_fil(path)
        hdr, data = parse_fil(path)
        if hdr['nchans'] != nch or data.shape != (T, nch) or (hdr['foff'] > 0) != c['asc'] or not np.array_equal(data, coded):
            # the input file is not what was asked for (C03's business): the case says nothing about splitting
            R.count('input_file_unexpected')
            R.skip('input file differs from the request')
            return
        ref = FileRef(hdr, data, fch, s, tch)
        R.bucket('hdr-arith:exact' if ref.arith_exact else 'hdr-arith:inexact')
        if ref.exact_fit:
            R.bucket('exact-fit:arith-exact' if ref.arith_exact else 'exact-fit:arith-inexact')
        kw = {}
        if c['shift'] != 'none':
            kw['f_shift'] = s
        elif c['explicit_none']:
            kw['f_shift'] = None
        if c['tsel'] != 'none':
            kw['tchans'] = tch
        elif c['explicit_none']:
            kw['tchans'] = None
        limit = ref.want + 3
        kind = c['kind']
        if kind == 'gen':
            pieces = []
            with common.quiet():
                for wf in stg.split_waterfall_generator(path, fch, **kw):
                    pieces.append(wf)
                    if len(pieces) >= limit:
                        break
            _check_count(R, ref, len(pieces), 'split_waterfall_generator')
            n = min(len(pieces), ref.want)
            ok = True
            for i in range(n):
                d = np.asarray(pieces[i].data)
                if not (d.ndim == 3 and d.shape[1] == 1):
                    R.violate('piece-layout', piece=i, shape=list(d.shape))
                    ok = False
                    break
                R.count('pieces_compared')
                if not _check_block(R, ref, i, d[:, 0, :], 'piece'):
                    ok = False
                    break
            if ok:
                for i in _subset(rng, n):
                    _check_frame(R, stg, ref, i, pieces[i], 'frame')
                    # the piece is still the i-th piece after a frame was made from it (its data, and a second frame from it)
                    R.bucket('piece-used-again-after-a-frame-was-built')
                    d = np.asarray(pieces[i].data)
                    if d.ndim == 3 and d.shape[1] == 1:
                        _check_block(R, ref, i, d[:, 0, :], 'piece-after-frame')
                    else:
                        R.violate('piece-after-frame-layout', piece=i, shape=list(d.shape))
                    _check_frame(R, stg, ref, i, pieces[i], 'second-frame-from-piece')
            R.mark_nontrivial(n >= 1)
        elif kind == 'fil':
            od = pathlib.Path(outdir) if c['outdir_path'] else outdir
            # every third case: the output directory already holds the pieces of an EARLIER, different split of the same
            # file (other shift / fewer integrations); the second call must still write what was asked for
            prepop = (c['_idx'] % 3 == 0)
            if prepop:
                R.bucket('fil:output-dir-already-populated')
                kw0 = dict(f_shift=s + 1)
                t_all = int(data.shape[0])
                if (tch or t_all) > 1:
                    kw0['tchans'] = (tch or t_all) - 1
                with common.quiet():
                    stg.split_fil(path, od, fch, **kw0)
            with common.quiet():
                fns = stg.split_fil(path, od, fch, **kw)
            fns = [str(f) for f in fns]
            _check_count(R, ref, len(fns), 'split_fil')
            R.check(len(set(fns)) == len(fns), 'fil-names-not-distinct', n=len(fns), distinct=len(set(fns)))
            listing = sorted(os.listdir(outdir)) if os.path.isdir(outdir) else []
            R.check((prepop or len(listing) == len(set(fns))) and all(os.path.isfile(f) for f in fns), 'fil-one-file-per-piece',
                    listed=len(listing), returned=len(fns))
            n = min(len(fns), ref.want)
            ok = True
            for i in range(n):
                if not os.path.isfile(fns[i]):
                    continue
                try:
                    h2, d2 = parse_fil(fns[i])
                except (ValueError, struct.error, UnicodeDecodeError) as e:
                    R.violate('fil-unparseable-by-independent-reader', piece=i, error=repr(e))
                    ok = False
                    break
                R.count('pieces_compared')
                if not _check_block(R, ref, i, d2, 'fil'):
                    ok = False
                    break
                e1 = abs(Fraction(h2['fch1']) - ref.freq_mhz(i * s))
                R.check(h2['nchans'] == fch and h2['foff'] == hdr['foff'] and e1 <= ref.tol_mhz, 'fil-header', piece=i,
                        nchans=h2['nchans'], foff=h2['foff'], fch1=h2['fch1'], want_fch1=float(ref.freq_mhz(i * s)))
            if ok:
                for i in _subset(rng, n, 3):
                    if not os.path.isfile(fns[i]):
                        continue
                    try:
                        _check_frame(R, stg, ref, i, fns[i] if i % 2 else pathlib.Path(fns[i]), 'fil-frame')
                        R.count('files_loaded')
                    except Exception as e:   # "loadable" is the clause: any failure to load is the violation
                        R.violate('fil-not-loadable', piece=i, error=repr(e)[:300])
            R.mark_nontrivial(n >= 1)
        else:
            with common.quiet():
                if kind == 'params':
                    out = stg.get_parameter_distributions(path, fch, **kw)
                    names = ['mean', 'std', 'min']
                    ok = R.check(isinstance(out, tuple) and len(out) == 3, 'consumer-return-arity', got=repr(type(out)))
                    arrs = [np.asarray(a) for a in out] if ok else []
                else:
                    out = stg.get_mean_distribution(path, fch, **kw)
                    names = ['mean']
                    arrs = [np.asarray(out)]
            for nm, a in zip(names, arrs):
                if not R.check(a.ndim == 1, 'consumer-output-not-1d', which=nm, shape=list(a.shape)):
                    continue
                key = ref.count_key(len(a))
                if key is not None and not key.startswith('split-count'):
                    key = key.replace('piece-count', 'consumer-length')
                R.check(key is None, key or 'consumer-length', api=kind, which=nm, got=len(a), want=ref.want, nchans=nch, fchans=fch,
                        shift=s, fch1=hdr['fch1'], foff=hdr['foff'])
                bad = None
                for i in range(min(len(a), ref.want)):
                    p = ref.piece(i)
                    lo, hi = float(p.min()), float(p.max())
                    tol = 1e-4 * max(1.0, abs(hi))
                    v = float(a[i])
                    good = (v <= (hi - lo) / 2 + tol) if nm == 'std' else (lo - tol <= v <= hi + tol)
                    if not good and bad is None:
                        bad = dict(piece=i, value=v, lo=lo, hi=hi)
                R.check(bad is None, 'consumer-values-outside-piece-range', which=nm, **(bad or {}))
            R.mark_nontrivial(ref.want >= 1)
    finally:
        if os.path.exists(path):
            os.remove(path)
        shutil.rmtree(outdir, ignore_errors=True)


# ------------------------------------------------------------------ R-SPLIT (arrays)

def _blocks(H, W, th, tw):
    """Partition of an H x W array into tiles of th x tw, row-major: list of (y0, x0, h, w)."""
    out = []
    for y0 in range(0, H, th):
        for x0 in range(0, W, tw):
            out.append((y0, x0, min(th, H - y0), min(tw, W - x0)))
    return out


def run_array(c, R, stg):
    H, W = c['H'], c['W']
    R.bucket('api:array')
    R.bucket('trim:%d%d' % (c['t_trim'], c['f_trim']))
    R.bucket('amode:' + c['amode'])
    R.bucket('asize:' + c['asize'])
    base = np.arange(H * W, dtype=np.int64).reshape(H, W)
    data = base.astype(c['dtype'])
    th, tw = (c['th'] or H), (c['tw'] or W)
    ts, fs = (c['ts'] or th), (c['fs'] or tw)
    partition = (ts == th and fs == tw)
    if th != tw:
        R.bucket('array:nonsquare-tiles')
    kw = dict(f_sample_num=c['tw'], t_sample_num=c['th'], f_shift=c['fs'], t_shift=c['ts'], f_trim=c['f_trim'], t_trim=c['t_trim'])
    if c['omit_none']:
        kw = {k: v for k, v in kw.items() if v is not None}
    trimmed = c['t_trim'] or c['f_trim']
    suffix = ':trim' if trimmed else ''
    if partition:
        R.bucket('array:partition-mode')
        allb = _blocks(H, W, th, tw)
        exp = [b for b in allb if (not c['t_trim'] or b[2] == th) and (not c['f_trim'] or b[3] == tw)]
        shapes = {(b[2], b[3]) for b in exp}
        R.bucket('array:empty-expected' if not exp else ('array:ragged-expected' if len(shapes) > 1 else 'array:uniform-expected'))
    try:
        out = stg.split_array(data.copy(), **kw)
    except ValueError as e:
        if 'inhomogeneous' not in str(e):
            raise
        if partition and len(shapes) <= 1:
            R.violate('array-raises:uniform-tiling-expected', error=str(e)[:200], expected_tiles=len(exp))
        else:
            R.violate('split-array-ragged', error=str(e)[:200], shape=[H, W], tile=[th, tw], shift=[ts, fs],
                      trims=[c['t_trim'], c['f_trim']])
        R.mark_nontrivial(True)
        return
    tiles = [np.asarray(t) for t in list(out)]

    def origin(t):
        """(y0, x0, h, w) if t is a contiguous block of the input, else None."""
        if t.ndim != 2 or t.size == 0:
            return None
        v = int(t.flat[0])
        y0, x0 = divmod(v, W)
        h, w = t.shape
        if y0 + h > H or x0 + w > W or not np.array_equal(t, data[y0:y0 + h, x0:x0 + w]):
            return None
        return (y0, x0, h, w)

    if partition:
        R.count('tiles_compared', len(tiles))
        got = [origin(t) for t in tiles]
        if not R.check(len(tiles) == len(exp), 'array-tile-count' + suffix, got=len(tiles), want=len(exp), shape=[H, W],
                       tile=[th, tw], trims=[c['t_trim'], c['f_trim']]):
            pass
        elif got != exp:
            if any(g is None for g in got):
                k = [g is None for g in got].index(True)
                t = tiles[k]
                if t.shape != (exp[k][2], exp[k][3]):
                    R.violate('array-tile-shape' + suffix, tile_index=k, got=list(t.shape), want=[exp[k][2], exp[k][3]])
                else:
                    R.violate('array-tile-content', tile_index=k)
            elif sorted(got) == sorted(exp):
                R.violate('array-tile-order', got=got[:6], want=exp[:6])
            elif trimmed and set(got) <= set(allb):
                R.violate('array-trim-kept-set', got=got[:6], want=exp[:6], tile=[th, tw])
            else:
                k = [g != e for g, e in zip(got, exp)].index(True)
                R.violate('array-tile-geometry' + suffix, tile_index=k, got=list(got[k]), want=list(exp[k]))
        else:
            R.check(True, 'array-tiles')
        # independent formulation of the partition clause: multiplicity of every element
        vals = np.concatenate([t.ravel() for t in tiles]) if tiles else np.zeros(0)
        iv = np.rint(vals).astype(np.int64)
        if R.check(iv.size == 0 or (iv.min() >= 0 and iv.max() < H * W), 'array-foreign-values'):
            mult = np.bincount(iv, minlength=H * W).reshape(H, W)
            keep = np.zeros((H, W), dtype=np.int64)
            keep[:(H // th) * th if c['t_trim'] else H, :(W // tw) * tw if c['f_trim'] else W] = 1
            R.check(np.array_equal(mult, keep), 'array-partition:element-multiplicity' + suffix,
                    missing=int(((mult == 0) & (keep == 1)).sum()), repeated=int((mult > 1).sum()),
                    extra=int(((mult > 0) & (keep == 0)).sum()))
            # row-major order: first elements of successive tiles increase in (block row, block column)
            firsts = [(int(t.flat[0]) // W // th, int(t.flat[0]) % W // tw) for t in tiles if t.size]
            R.check(firsts == sorted(firsts), 'array-tile-order', firsts=firsts[:8])
        R.mark_nontrivial(len(exp) >= 2)
    else:
        n_ok = 0
        for k, t in enumerate(tiles):
            if t.size == 0:
                R.count('array_empty_tiles')
                continue
            R.count('tiles_compared')
            if not R.check(t.ndim == 2 and t.shape[0] <= th and t.shape[1] <= tw, 'array-overlap-tile:size', tile_index=k,
                           got=list(t.shape), tile=[th, tw]):
                break
            o = origin(t)
            if not R.check(o is not None, 'array-overlap-tile:content', tile_index=k):
                break
            y0, x0, h, w = o
            if not R.check(y0 % ts == 0 and x0 % fs == 0, 'array-overlap-tile:origin', tile_index=k, origin=[y0, x0], shift=[ts, fs]):
                break
            if not R.check((h == th or y0 + h == H) and (w == tw or x0 + w == W), 'array-overlap-tile:truncated-inside',
                           tile_index=k, block=list(o), tile=[th, tw], shape=[H, W]):
                break
            if not R.check((not c['t_trim'] or h == th) and (not c['f_trim'] or w == tw), 'array-overlap-tile:trim', tile_index=k,
                           block=list(o), tile=[th, tw]):
                break
            n_ok += 1
        if not trimmed:
            R.check(len(tiles) >= 1 and origin(tiles[0]) is not None and origin(tiles[0])[:2] == (0, 0),
                    'array-overlap-tile:first-not-at-origin')
        R.mark_nontrivial(n_ok >= 2)


def run_case(c, R):
    stg = common.import_setigen()
    if c['kind'] == 'array':
        run_array(c, R, stg)
    else:
        run_file(c, R, stg)


MANIFEST = {
    'text': 'Runtime monitoring: post-conditions on split_waterfall_generator (consumed fully), split_fil (every written file re-read '
            'by an independent sigproc parser and re-loaded as a Frame), get_parameter_distributions / get_mean_distribution '
            '(output lengths) and split_array, against an index-level tiling reference: piece count floor((nchans-fchans)/s)+1, '
            'piece i = file channels [i*s, i*s+fchans) of the leading integrations with their data and frequencies (exact '
            'rationals from the parsed header), tiles of an index-coded array forming a row-major partition with per-axis trimming. '
            'Workload stratified over orientation, writer, fit (single/exact/remainder), shift, tchans, header arithmetic class, '
            'and array shape/tile/shift/trim classes. Held = no monitor fired on the executions produced (exploration).',
    'note': '; '.join(ASSUMPTIONS),
    'technique': 'post-condition monitors with an independent index-level reference (R-SPLIT), independent file reader, index-coded data',
}
