"""C15 -- array antennas see the shared background delayed by their configured delays.

Monitor: post-condition on MultiAntennaArray.get_samples / set_time / add_time / reset_start.
Shadow state = a reference clock (start time of the current observation, global sample
counter) plus, per observation, reference sample sequences of every stream:

  * streams that carry *coded* sources (a custom signal function whose value is a table
    entry selected by the sample index decoded from the time stamp) have a reference
    that does not involve setigen at all;
  * streams that carry Gaussian noise / chirps are referred to a same-seed twin array
    whose streams are driven stand-alone (background stream asked ONCE per observation
    for N + maxdelay samples, own streams with the observed request sizes).

Expected output (written from the property text, with an index gather, no slicing/caching):
    out[i, p, k] = own[i, p][k] + background[p][k + max(delays) - delays[i]]      (k global index)
"""
import math
import numpy as np
from .. import common

ID = 'C15'
LEVEL = 'exploration'
RULE = ('stratified: delay class {omitted, explicit None, zeros, sorted, descending, unsorted, repeated, single large, '
        'all positive} x 1/2 pols x background content {noise, noise+chirp, coded, coded+noise} x own content {none, '
        'noise, noise+chirp, coded}; random: 1-6 antennas, delay container {list, tuple, ndarray}, maxdelay 0..300 '
        '(thorough: ..2000), partition class {single, all maxdelay+1, mixed, many small} with request sizes in '
        'maxdelay+1..500, 1-3 observations separated by {set_time, add_time, reset_start, two ops in a row, op before the '
        'first request}, sample rate / fch1 / orientation / t_start classes; non-trivial = at least one request compared '
        'against a background reference of non-zero spread with a decidable bound; distinct = distinct descriptor')
ASSUMPTIONS = [
    'noise-only and coded contents are compared bit-exactly (one float addition own + background, commutative); a '
    'single Gaussian noise source per stream, so that the numpy Generator sequence does not depend on the request sizes',
    'chirps: |error| <= level*(2pi(|f-fch1|+|drift|t)*dt_jit + 8 ulp(phase_max)) + 4 ulp(|v|), dt_jit = (4+requests)'
    '*ulp(t_max): the reference asks the background once per observation, the array in pieces (accumulated clock)',
    'the background stream of an observation is consumed up to index N+maxdelay-1 (forced by the statement whenever '
    'some delay is 0); the noise generator of the next observation continues from there',
    'after set_time(t) / add_time(t) / reset_start() the new observation starts at t / clock+t / clock, clock = start '
    'time + samples delivered / sample_rate',
    '"clears the carried-over background" is also read on the state named in the anchors: after a clock operation '
    'every Antenna.bg_cache entry is None or empty (skipped and counted if the attribute does not exist)',
    'requests <= maxdelay are outside the quantifier and are never issued (their rejection is not part of the statement)',
]

DELAY_CLASSES = ['omitted', 'none', 'zeros', 'sorted', 'descending', 'unsorted', 'repeated', 'single-large', 'all-positive']
BG_KINDS = ['noise', 'noise+tone', 'coded', 'coded+noise', 'coded-complex']
OWN_KINDS = ['none', 'noise', 'noise+tone', 'coded']        # + 'coded-complex', forced whenever the background is complex
PARTS = ['single', 'min-size', 'mixed', 'many']
CLOCKS = ['none', 'set_time', 'add_time', 'reset_start', 'double', 'before-first']
FORMS = ['list', 'tuple', 'ndarray']
RATES = [3e9, 2.4e9, 1.7e8, 1e6, 48000.0]
TABLE = 8191


def required(tier):
    b = {f'delays:{k}': 10 for k in DELAY_CLASSES}
    # the classes below are only reached by arrays that could be constructed
    b.update({f'bg:{k}': 20 for k in BG_KINDS})
    b.update({f'own:{k}': 20 for k in OWN_KINDS})
    b.update({f'partition:{k}': 20 for k in PARTS})
    b.update({f'clock:{k}': 20 for k in CLOCKS})
    b['bg-update_noise-between-requests'] = 40
    b.update({f'form:{k}': 20 for k in FORMS})
    b.update({f'antennas:{k}': 10 for k in range(1, 7)})
    b.update({'pols:1': 50, 'pols:2': 50, 'request==maxdelay+1:later': 20, 'request==maxdelay+1:first': 20,
              'delays:first-antenna-not-max': 20, 'delays:not-palindromic': 20, 'maxdelay>=100': 10,
              'delays:caller-container-changed-after-construction:ndarray': 30,
              'delays:caller-container-changed-after-construction:list': 30, 'request>2^15-samples': 20, 'second-array-read-in-between': 100})
    return {'buckets': b,
            'counters': {'requests_checked': 1500, 'later_requests_with_carry': 300, 'observations_after_clock_op': 200,
                         'cache_state_checks': 200, 'samples_compared': 200000, 'y_later_requests_with_carry': 100},
            'checks': 3000, 'nontrivial': 400}


# --------------------------------------------------------------------------- workload

def _delays(rng, cls, na, big):
    hi = int(common.pick(rng, [3, 8, 60, 300] + ([2000] if big else [])))
    if cls in ('omitted', 'none'):
        return None
    if cls == 'zeros':
        return [0] * na
    if cls == 'single-large':
        d = [0] * na
        d[int(rng.integers(na))] = int(rng.integers(max(1, hi // 2), hi + 1))
        return d
    if cls == 'all-positive':
        return [int(v) for v in rng.integers(1, hi + 1, size=na)]
    if cls == 'repeated':
        vals = [int(v) for v in rng.integers(0, hi + 1, size=max(1, (na + 1) // 2))]
        d = [vals[int(rng.integers(len(vals)))] for _ in range(na)]
        if na >= 2:
            d[1] = d[0]
        return d
    vals = sorted(int(v) for v in rng.choice(hi + 1, size=min(na, hi + 1), replace=False)) if na <= hi + 1 else \
        sorted(int(v) for v in rng.integers(0, hi + 1, size=na))
    while len(vals) < na:
        vals.append(vals[-1])
    if cls == 'sorted':
        vals[0] = 0 if rng.random() < 0.7 else vals[0]
        return sorted(vals)
    if cls == 'descending':
        return sorted(vals, reverse=True)
    # unsorted: the largest delay is never first when there is a choice
    d = [int(v) for v in rng.permutation(vals)]
    if na >= 2 and d[0] == max(d):
        j = int(np.argmin(d))
        d[0], d[j] = d[j], d[0]
    return d


def _content(rng, kind, rate, fch1, asc):
    c = {'kind': kind}
    if 'noise' in kind:
        c['noise'] = [float(common.pick(rng, [0.0, 0.0, 1.5, -3.0])), float(common.pick(rng, [1.0, 0.5, 3.0, 12.0]))]
    if 'tone' in kind:
        off = float(rng.uniform(0.05, 0.9)) * rate / 2
        c['tone'] = dict(f=fch1 + off if asc else fch1 - off, drift=float(common.pick(rng, [0.0, 2.0, -150.0, 1e4])),
                         level=float(common.pick(rng, [1.0, 0.25, 5.0])), phase=float(rng.uniform(0, 2 * math.pi)))
    if 'coded' in kind:
        c['salt'] = int(rng.integers(2 ** 31))
    if kind == 'coded-complex':
        c['cplx'] = True
    return c


def _partition(rng, cls, D, big):
    lo = D + 1
    hi = max(500, lo + 40) if not big else max(5000, lo + 400)
    if cls == 'single':
        return [int(common.pick(rng, [lo, lo + 1, int(rng.integers(lo, hi + 1))]))]
    if cls == 'min-size':
        return [lo] * int(rng.integers(2, 6))
    if cls == 'many':
        return [int(lo + rng.integers(0, 20)) for _ in range(int(rng.integers(6, 11)))]
    n = int(rng.integers(2, 6))
    out = [int(common.pick(rng, [lo, lo + 1, lo + 2, int(rng.integers(lo, hi + 1)), int(rng.integers(lo, hi + 1))]))
           for _ in range(n)]
    if rng.random() < 0.5:
        out[int(rng.integers(1, n))] = lo
    return out


def _clock_op(rng, kind, t0):
    if kind == 'set_time':
        return ['set', float(common.pick(rng, [0.0, t0, 1.0, float(rng.uniform(0, 10)), 2.5e-3]))]
    if kind == 'add_time':
        return ['add', float(common.pick(rng, [0.0, 1e-6, 0.5, float(rng.uniform(0, 3))]))]
    return ['reset']


def gen_cases(seed, tier):
    rng = np.random.default_rng([seed, 15])
    n = 2304 if tier == 'quick' else 414720
    cases = []
    for i in range(n):
        dcls = common.stratum(i, 151, DELAY_CLASSES)
        npol = 1 + common.stratum(i, 152, 2)
        bgk = common.stratum(i, 153, BG_KINDS)
        ownk = common.stratum(i, 154, OWN_KINDS)
        if bgk == 'coded-complex':
            ownk = 'coded-complex'       # a complex background can only be added to complex antenna voltages
        big = tier == 'thorough' and common.stratum(i, 155, 41) == 0
        na = int(rng.integers(1, 7))
        if dcls in ('sorted', 'descending', 'unsorted', 'repeated') and na < 2:
            na = int(rng.integers(2, 7))
        delays = _delays(rng, dcls, na, big)
        D = max(delays) if delays else 0
        rate = float(common.pick(rng, RATES))
        asc = bool(rng.integers(2))
        fch1 = float(common.pick(rng, [0.0, 1e9, 6e9]))
        if not asc and fch1 < rate:
            fch1 = 6e9
        t0 = float(common.pick(rng, [0.0, 0.0, 1e-3, 1.0, 7.3]))
        clock = CLOCKS[int(rng.integers(len(CLOCKS)))]
        part = PARTS[int(rng.integers(len(PARTS)))]
        ops = []
        if clock == 'before-first':
            ops.append(_clock_op(rng, common.pick(rng, ['set_time', 'add_time', 'reset_start']), t0))
        nobs = 1 if clock in ('none', 'before-first') else int(rng.integers(2, 4))
        for o in range(nobs):
            if o > 0:
                if clock == 'double':
                    ops.append(_clock_op(rng, common.pick(rng, ['set_time', 'add_time', 'reset_start']), t0))
                    ops.append(_clock_op(rng, common.pick(rng, ['set_time', 'add_time', 'reset_start']), t0))
                else:
                    ops.append(_clock_op(rng, clock, t0))
            gets = [['get', m] for m in _partition(rng, part, D, big)]
            if D >= 1 and common.stratum(i, 157, 24) == 0 and o == 0:
                # one long request just above a power of two (2^16 + r, 1 <= r <= maxdelay: a library that generates long requests
                # piecewise ends on a piece shorter than a delay), followed by ordinary ones
                long_n = 2 ** int(common.pick(rng, [16, 16, 15, 17])) + int(rng.integers(1, D + 1))
                gets = [['get', int(D + 1 + rng.integers(0, 50))], ['get', long_n], ['get', int(D + 1 + rng.integers(0, 300))],
                        ['get', int(D + 1 + rng.integers(0, 300))]]
            if bgk == 'coded' and len(gets) >= 2 and common.stratum(i, 156, 3) == 0:
                # between two requests of one observation the shared background re-estimates its noise level (the stream draws a
                # throw-away block and restores its clock): what the antennas carry over must not be affected
                at = int(rng.integers(1, len(gets)))
                gets.insert(at, ['bgupd', int(common.pick(rng, [50, 400, 10000]))])
            ops.extend(gets)
        form = 'list' if delays is None else FORMS[int(rng.integers(3))]
        bg = [_content(rng, bgk, rate, fch1, asc) for _ in range(npol)]
        own = [[_content(rng, ownk, rate, fch1, asc) for _ in range(npol)] for _ in range(na)]
        cases.append(dict(na=na, npol=npol, delays=delays, dclass=dcls, form=form, rate=rate, fch1=fch1, asc=asc, t0=t0,
                          seed=int(rng.integers(2 ** 31)), bg=bg, own=own, ops=ops, clock=clock, part=part))
    return cases


# --------------------------------------------------------------------------- driving the API

def _table(salt, cplx=False):
    g = np.random.default_rng([salt, 1515])
    t = g.integers(-1000, 1001, size=TABLE).astype(float)
    if cplx:
        t = t + 1j * g.integers(-1000, 1001, size=TABLE).astype(float)
    return t


def _coded_source(tbl, clk, rate):
    """Custom signal source: value = table[sample index], the index decoded from the time stamps
    relative to the start of the current observation (reference clock)."""
    def source(ts):
        k = np.rint((np.asarray(ts, dtype=float) - clk['T']) * rate).astype(np.int64)
        return tbl[np.mod(k, TABLE)]
    return source


def _equip(stream, content, clk, rate, coded=True):
    if 'noise' in content:
        stream.add_noise(v_mean=content['noise'][0], v_std=content['noise'][1])
    if 'tone' in content:
        t = content['tone']
        stream.add_constant_signal(f_start=t['f'], drift_rate=t['drift'], level=t['level'], phase=t['phase'])
    if 'salt' in content and coded:
        stream.add_signal(_coded_source(_table(content['salt'], content.get('cplx', False)), clk, rate))


def _build(stg, c, delays_kw):
    kw = dict(num_antennas=c['na'], sample_rate=c['rate'], fch1=c['fch1'], ascending=c['asc'], num_pols=c['npol'],
              t_start=c['t0'], seed=c['seed'])
    kw.update(delays_kw)
    return stg.voltage.MultiAntennaArray(**kw)


def _streams(ant, npol):
    return [ant.x] if npol == 1 else [ant.x, ant.y]


def _bg_streams(arr, npol):
    return [arr.bg_x] if npol == 1 else [arr.bg_x, arr.bg_y]


def _tone_bound(content, t_max, dt_jit, fch1):
    if 'tone' not in content:
        return 0.0
    t = content['tone']
    rate_phi = 2 * math.pi * (abs(t['f'] - fch1) + abs(t['drift']) * t_max)
    phi_max = 2 * math.pi * (abs(t['f'] - fch1) * t_max + 0.5 * abs(t['drift']) * t_max ** 2) + 2 * math.pi
    return t['level'] * (rate_phi * dt_jit + 8 * common.ulp(phi_max))


def run_case(c, R):
    stg = common.import_setigen()
    na, npol, rate = c['na'], c['npol'], c['rate']
    delays = c['delays']
    omitted = delays is None
    d = [0] * na if omitted else [int(v) for v in delays]
    D = max(d)
    R.bucket('delays:' + c['dclass'])

    if c['dclass'] == 'omitted':
        dkw = {}
    elif omitted:
        dkw = {'delays': None}
    else:
        dkw = {'delays': {'list': list, 'tuple': tuple, 'ndarray': lambda v: np.array(v, dtype=np.int64)}[c['form']](d)}
    R.count('arrays_requested')
    try:
        arr = _build(stg, c, dkw)
    except Exception as exc:  # noqa
        if omitted:
            R.violate('delays-none', how=c['dclass'], exception=type(exc).__name__, message=str(exc)[:200])
            return
        raise
    R.check(True, 'delays-none')
    pre = 'delays-none:' if omitted else ''
    # the configured delays are the ones given AT CONSTRUCTION: what the caller does with its own container afterwards (reuse it
    # for the next array, sort it, zero it) must not reach this array -- neither now nor at the next clock operation
    given = dkw.get('delays')
    if isinstance(given, (list, np.ndarray)) and c['seed'] % 3 != 0:
        for q in range(len(given)):
            given[q] = int(given[q]) + 1 + ((q * 7 + c['seed']) % 5)
        R.bucket('delays:caller-container-changed-after-construction:' + type(given).__name__)

    # a second, unrelated array alive in the same process and read in between (whatever the arrays keep between requests, they keep
    # it per array)
    decoy = None
    if c['seed'] % 4 == 0 and na >= 1:
        R.bucket('second-array-read-in-between')
        decoy = _build(stg, dict(c, seed=c['seed'] + 99), {'delays': [int((x_ * 3 + 1) % 7) for x_ in range(na)]})
        for s_ in _bg_streams(decoy, npol):
            s_.add_noise(v_mean=0.0, v_std=2.0)
    # same-seed twin: only its streams are used, each driven stand-alone
    twin = _build(stg, c, {'delays': [0] * na})
    clk = {'T': c['t0']}
    for p in range(npol):
        _equip(_bg_streams(arr, npol)[p], c['bg'][p], clk, rate)
        _equip(_bg_streams(twin, npol)[p], c['bg'][p], clk, rate, coded=False)
        for i in range(na):
            _equip(_streams(arr.antennas[i], npol)[p], c['own'][i][p], clk, rate)
            _equip(_streams(twin.antennas[i], npol)[p], c['own'][i][p], clk, rate, coded=False)
    cplx = bool(c['bg'][0].get('cplx'))
    bg_tbl = [(_table(c['bg'][p]['salt'], cplx) if 'salt' in c['bg'][p] else None) for p in range(npol)]
    own_tbl = [[(_table(c['own'][i][p]['salt'], cplx) if 'salt' in c['own'][i][p] else None) for p in range(npol)]
               for i in range(na)]

    # feature buckets
    R.bucket('bg:' + c['bg'][0]['kind'])
    R.bucket('own:' + c['own'][0][0]['kind'])
    R.bucket('partition:' + c['part'])
    R.bucket('clock:' + c['clock'])
    R.bucket(f'pols:{npol}')
    R.bucket(f'antennas:{na}')
    if not omitted:
        R.bucket('form:' + c['form'])
        if d[0] != D:
            R.bucket('delays:first-antenna-not-max')
        if d != d[::-1]:
            R.bucket('delays:not-palindromic')
        if D >= 100:
            R.bucket('maxdelay>=100')

    T = c['t0']                 # reference clock: start time of the current observation
    delivered = 0               # samples delivered in the current observation
    obs_index = 0
    reqs = []                   # (size, output copy) of the current observation
    own_chunks = [[[] for _ in range(npol)] for _ in range(na)]
    total_reqs = 0
    t_abs_max = abs(T)
    state = dict(after_clock=False)

    def finalize():
        """Close the current observation: obtain the background reference once, compare every request."""
        nonlocal reqs, own_chunks
        if not reqs:
            return
        N = sum(n for n, _ in reqs)
        t_max = abs(T) + (N + D + 1) / rate
        dt_jit = (4 + total_reqs) * common.ulp(max(t_max, t_abs_max))
        bg_ref, bg_bound = [], []
        for p in range(npol):
            cont = c['bg'][p]
            if 'noise' in cont or 'tone' in cont:
                ref = np.array(_bg_streams(twin, npol)[p].get_samples(N + D), dtype=float)
            else:
                ref = np.zeros(N + D)
            if bg_tbl[p] is not None:
                ref = ref + bg_tbl[p][np.mod(np.arange(N + D), TABLE)]
            bg_ref.append(ref)
            bg_bound.append(_tone_bound(cont, t_max, dt_jit, c['fch1']))
        a = 0
        for r, (n, out) in enumerate(reqs):
            phase = ('first-request' if r == 0 else 'later-request') + ('-after-clock-op' if state['after_clock'] else '')
            k = np.arange(a, a + n)
            if r > 0 and D > 0:
                R.count('later_requests_with_carry')
                if npol == 2:
                    R.count('y_later_requests_with_carry')
            if n == D + 1:
                R.bucket('request==maxdelay+1:' + ('first' if r == 0 else 'later'))
            if n > 2 ** 15:
                R.bucket('request>2^15-samples')
            for i in range(na):
                ok = []
                det = {}
                for p in range(npol):
                    own = np.concatenate(own_chunks[i][p])[a:a + n]
                    if own_tbl[i][p] is not None:
                        own = own + own_tbl[i][p][np.mod(k, TABLE)]
                    want = own + np.take(bg_ref[p], k + (D - d[i]))
                    bound = bg_bound[p] + _tone_bound(c['own'][i][p], t_max, dt_jit, c['fch1'])
                    if bound > 0:
                        bound += 4 * common.ulp(float(np.max(np.abs(want))))
                    scale = float(np.std(bg_ref[p]))
                    err = np.abs(out[i, p] - want)
                    worst = float(np.max(err))
                    good = bool(worst <= bound)
                    ok.append(good)
                    if bound > 0:
                        R.maximum('chirp_err_over_bound', worst / bound)
                    if scale > 0 and bound <= 1e-2 * scale:
                        R.mark_nontrivial()
                    else:
                        R.count('requests_undecidable')
                    if not good and not det:
                        j = int(np.argmax(err > bound))
                        det = dict(pol='xy'[p], antenna=i, delay=d[i], maxdelay=D, request=r, size=n, first_bad_offset=j,
                                   got=str(out[i, p, j]), want=str(want[j]), bound=bound, nbad=int((err > bound).sum()),
                                   observed_shift=None if cplx else _fit_shift(out[i, p], own, bg_ref[p], a + D - d[i], D, bound),
                                   fits_other_pol=bool(npol == 2 and np.max(np.abs(
                                       out[i, p] - own - np.take(bg_ref[1 - p], k + (D - d[i])))) <= bound))
                R.count('samples_compared', n * npol)
                key = pre + 'alignment:' + phase
                if not all(ok) and npol == 2 and ok[0] and not ok[1]:
                    key += ':pol-y-only'
                R.check(all(ok), key, delays=None if omitted else d, **det)
            R.count('requests_checked')
            a += n
        if state['after_clock']:
            R.count('observations_after_clock_op')
        reqs = []
        own_chunks = [[[] for _ in range(npol)] for _ in range(na)]

    for op in c['ops']:
        if op[0] == 'get':
            n = int(op[1])
            try:
                with common.quiet():
                    out = arr.get_samples(n)
            except Exception as exc:  # noqa
                if omitted:
                    R.violate('delays-none:get-samples-raises', exception=type(exc).__name__, message=str(exc)[:200])
                    return
                raise
            out = np.array(out)
            if decoy is not None:
                with common.quiet():
                    decoy.get_samples(8 + (total_reqs % 5))
            total_reqs += 1
            if not R.check(out.shape == (na, npol, n) and bool(np.iscomplexobj(out)) == cplx, pre + 'output-shape-or-dtype', complex_expected=cplx,
                           shape=list(out.shape), want=[na, npol, n]):
                return
            for i in range(na):
                for p in range(npol):
                    st = _streams(twin.antennas[i], npol)[p]
                    own_chunks[i][p].append(np.array(st.get_samples(n), dtype=float))
            reqs.append((n, out.astype(complex if cplx else float)))
            delivered += n
            continue
        if op[0] == 'bgupd':
            R.bucket('bg-update_noise-between-requests')
            with common.quiet():
                for bgs in _bg_streams(arr, npol):
                    bgs.update_noise(stats_calc_num_samples=int(op[1]))
            continue
        # clock operation: the running observation ends here
        finalize()
        carried = delivered > 0 and D > 0
        now = T + delivered / rate
        if op[0] == 'set':
            arr.set_time(op[1])
            T = float(op[1])
        elif op[0] == 'add':
            arr.add_time(op[1])
            T = now + float(op[1])
        else:
            arr.reset_start()
            T = now
        t_abs_max = max(t_abs_max, abs(T), abs(now))
        if delivered > 0:
            obs_index += 1
            state['after_clock'] = True
        delivered = 0
        clk['T'] = T
        for p in range(npol):
            _bg_streams(twin, npol)[p].set_time(T)
            for i in range(na):
                _streams(twin.antennas[i], npol)[p].set_time(T)
        # state clause: nothing of the previous observation is carried over
        if carried:
            for i, ant in enumerate(arr.antennas):
                if not hasattr(ant, 'bg_cache'):
                    R.count('cache_state_unobservable')
                    continue
                left = [(0 if e is None else int(np.size(e))) for e in list(ant.bg_cache)[:npol]]
                R.count('cache_state_checks')
                R.check(all(v == 0 for v in left), pre + 'reset-leaves-carried-background', op=op[0], antenna=i,
                        delay=d[i], carried_lengths=left)
    finalize()


def _fit_shift(out, own, bg, start, D, bound):
    """Diagnosis only: shift s such that out == own + bg[start+s : start+s+n]."""
    n = len(out)
    for s in sorted(range(-(D + 3), D + 4), key=abs):
        lo = start + s
        if lo < 0 or lo + n > len(bg):
            continue
        if np.max(np.abs(out - own - bg[lo:lo + n])) <= bound:
            return s
    return None


MANIFEST = {
    'text': 'Runtime monitoring: every MultiAntennaArray.get_samples of a stratified workload (1-6 antennas, omitted / zero / '
            'sorted / unsorted / repeated / single-large delay vectors, 1-2 pols, request partitions down to maxdelay+1, '
            'set_time / add_time / reset_start interleaved) is compared sample by sample with own[k] + '
            'background[k + maxdelay - delay_i], the background reference being a same-seed stand-alone stream asked once '
            'per observation or an index-coded table that does not involve the library; after every clock operation the '
            'carried-over background must be gone.',
    'note': '; '.join(ASSUMPTIONS),
    'technique': 'post-condition monitor with shadow clock and same-seed / index-coded reference streams',
}
