"""C08 -- polyphase filterbank equals its FIR+DFT definition, invariant to chunking.

Monitor: post-conditions on PolyphaseFilterbank.channelize / get_pfb_voltages / the window design.
  * every spectrum a call returns is compared with R-PFB (vlib/ref/pfb_def.py: explicit DFT matrix of the
    window-weighted sum of M consecutive length-P segments starting at sample n*P, / sqrt(P), k < P/2);
  * a stream is fed in consecutive chunks (multiples of M*P) into an object whose cache is shadowed
    (expected cache = last M*P samples fed since reset): the k-th spectrum of the concatenated outputs
    must be definition spectrum k of the stream, the per-call counts must add up to the one-shot count of
    every prefix, and the concatenation must equal the one-shot call;
  * linearity, complex = ch(Re) + i ch(Im), uncached calls and other filterbank objects leave a stream alone.
"""
import math
import warnings
import numpy as np

from .. import common
from ..ref import pfb_def as rp

ID = 'C08'
LEVEL = 'exploration'
RULE = ('stratified: case kind {one-shot, all compositions of a W-window stream, random op script over 1-3 filterbank '
        'objects} x input dtype {float64, float32, int16, complex128, complex64} x window {hamming, hann, blackman, '
        'boxcar, kaiser(beta)} by case index; num_taps 1..12 (1 and 12 forced regularly), num_branches even 2..256 '
        '(..1024 thorough), input family {gaussian, impulses, step, tone, ramp, constant, quantised} at random; '
        'compositions: all 2^(W-1) for W<=6, 24 random ones for W=7,8; scripts: feed / uncached call / _reset_cache '
        'interleaved over objects of equal or different configuration; non-trivial = at least one returned spectrum '
        'whose definition value exceeds 100x the rounding bound was compared; distinct = distinct descriptor')
ASSUMPTIONS = [
    'the window of the property is the object\'s own `window` array; its design clause is checked separately: M*P '
    'coefficients, symmetric, summing to M*P (unit DC gain x M*P) and equal to the windowed-sinc low-pass with cut-off '
    '1/num_branches of Nyquist weighted by the named (symmetric) window, to (256 + 4 M P) eps of the largest coefficient',
    'values: |X - R-PFB| <= 4 (2M + P + 8 log2 P + 8) eps sum|h||x| / sqrt(P) per spectrum (first-order bound of the '
    'products, the M-term sum, a P-point transform and the scaling, for both sides); eps is that of the input precision '
    '(float32 / complex64 input may legitimately be processed in single precision); largest error/bound is reported',
    'the number of spectra of a one-shot call on L samples (W = floor(L/(M P)) windows) is not fixed by the property; '
    'accepted: (W-1) M <= count <= floor(L/P) - M + 1 (all that the definition can produce); a chunked call must return '
    'count(prefix after) - count(prefix before) spectra, the counts being those of one-shot calls on the prefixes',
    '"exactly the spectra of the one-shot call" is evaluated as same count, same order and values within twice the rounding '
    'bound (bit-equality is counted, not demanded: FFT kernels may treat rows differently by position)',
    'only admissible inputs are fed: arrays of at least M*P samples; cached chunks are positive multiples of M*P; '
    'num_branches even, M*P >= 4 (a 2-point hann/blackman window is identically zero)',
    'a complex stream whose output equals the definition applied to its real part is reported under the single key '
    'pfb-complex-truncated and, within that case, chunk invariance continues to be checked against the real-part reference',
    'get_pfb_voltages is driven with real input only (it uses a real-input transform; channels k <= P/2)',
    'buffer reuse by the caller (the cache may alias the caller\'s array) is probed and counted, not judged',
]

WINDOWS = ['hamming', 'hann', 'blackman', 'boxcar', 'kaiser']
DTYPES = ['float64', 'float32', 'int16', 'complex128', 'complex64']
FAMILIES = ['gauss', 'impulse', 'step', 'tone', 'ramp', 'const', 'quantised']
KINDS = ['oneshot', 'compose', 'script']
P_QUICK = [2, 3, 4, 5, 6, 7, 8, 10, 12, 13, 16, 17, 24, 26, 32, 34, 50, 52, 64, 97, 100, 128, 256]
P_THOROUGH = P_QUICK + [512, 1024]


def required(tier):
    b = {f'kind:{k}': 100 for k in KINDS}
    b.update({f'dtype:{d}': 50 for d in DTYPES})
    b.update({f'window:{w}': 50 for w in WINDOWS})
    b.update({f'family:{f}': 20 for f in FAMILIES})
    b.update({'taps:1': 30, 'taps:12': 30, 'branches:2': 20, 'branches:>=128': 20, 'branches:odd': 100, 'branches:prime-factor>=13': 100,
              'oneshot:ragged-length': 30, 'oneshot:cache-on': 30, 'oneshot:single-window': 5, 'oneshot:more-than-2^20-samples': 3,
              'compose:exhaustive': 60, 'compose:sampled': 10, 'compose:starts-with-one-window': 200,
              'script:objects>=2': 60, 'script:same-config': 20, 'script:mixed-config': 20,
              'script:reset-mid-stream': 30, 'script:uncached-mid-stream': 60, 'script:read-only-helper-mid-stream': 60, 'script:continued-on-a-copy': 40})
    if tier == 'thorough':
        b['branches:>=512'] = 50
    return {'buckets': b,
            'counters': {'spectra_compared': 50000, 'seam_spectra_compared': 5000, 'streams': 3000, 'chunk_calls': 8000,
                         'cache_shadow_checks': 8000, 'window_checks': 300, 'linearity_checks': 50,
                         'complex_clause_checks': 50, 'pfb_voltages_checks': 50, 'isolation_replays': 100,
                         'literal_definition_points': 200},
            'checks': 30000, 'nontrivial': 600}


# ---------------------------------------------------------------- generator (parent, numpy only)

def gen_cfg(rng, i, tier, pmax=None):
    M = int(rng.integers(1, 13))
    if common.stratum(i, 81, 7) == 3:
        M = 1
    elif common.stratum(i, 82, 11) == 5:
        M = 12
    plist = P_THOROUGH if tier == 'thorough' else P_QUICK
    if pmax:
        plist = [p for p in plist if p <= pmax]
    P = int(common.pick(rng, plist))
    if common.stratum(i, 83, 13) == 6:
        P = 2
    elif common.stratum(i, 84, 17) == 9:
        P = plist[-1 - int(rng.integers(0, 3))]
    if M * P < 4:
        M = 2 + int(rng.integers(0, 6))
    wname = common.stratum(i, 85, WINDOWS)
    win = ['kaiser', float(common.pick(rng, [0.5, 2.0, 5.0, 8.6, 14.0]))] if wname == 'kaiser' else wname
    return dict(M=M, P=P, win=win)


def compositions(W):
    """All compositions of W (ordered sums of positive integers), 2^(W-1) of them."""
    out = []
    for mask in range(1 << (W - 1)):
        parts, run = [], 1
        for b in range(W - 1):
            if mask >> b & 1:
                parts.append(run)
                run = 1
            else:
                run += 1
        parts.append(run)
        out.append(parts)
    return out


def random_composition(rng, W):
    cuts = rng.random(W - 1) < rng.uniform(0.2, 0.8)
    parts, run = [], 1
    for cbit in cuts:
        if cbit:
            parts.append(run)
            run = 1
        else:
            run += 1
    parts.append(run)
    return [int(p) for p in parts]


def gen_cases(seed, tier):
    rng = np.random.default_rng([seed, 8])
    n = 2400 if tier == 'quick' else 120000
    cases = []
    for i in range(n):
        kind = KINDS[i % 3]
        dtype = common.stratum(i, 86, DTYPES)
        family = FAMILIES[int(rng.integers(len(FAMILIES)))]
        c = dict(kind=kind, dtype=dtype, family=family, scale=float(common.pick(rng, [1.0, 1.0, 1e-3, 3e4, 1e-10, 1e-12])),
                 sub=int(rng.integers(2 ** 31)))
        if kind == 'oneshot':
            c['cfg'] = gen_cfg(rng, i, tier)
            mp = c['cfg']['M'] * c['cfg']['P']
            j = i // 3
            c['W'] = 1 if common.stratum(j, 87, 9) == 4 else int(rng.integers(2, 7))
            if common.stratum(j, 94, 130 if tier == 'quick' else 1500) == 0:
                # one call on more than 2^20 samples (a library that works through long inputs in pieces must not lose or repeat
                # spectra at its internal seams)
                c['cfg'] = dict(M=int(common.pick(rng, [2, 4, 3])), P=int(common.pick(rng, [16, 32, 12])), win=common.pick(rng, ['hamming', 'hann']))
                c['W'] = (2 ** 20) // (c['cfg']['M'] * c['cfg']['P']) + int(rng.integers(1, 6))
                c['dtype'] = 'float64'
                mp = c['cfg']['M'] * c['cfg']['P']
            c['extra'] = int(rng.integers(1, mp)) if common.stratum(j, 88, 2) else 0
            c['cache'] = bool(common.stratum(j, 89, 2))
            c['ab'] = [float(np.round(rng.uniform(-3, 3), 3)), float(np.round(rng.uniform(-3, 3), 3))]
        elif kind == 'compose':
            c['cfg'] = gen_cfg(rng, i, tier)
            j = i // 3
            W = common.stratum(j, 90, [2, 3, 4, 5, 6, 1, 3, 4, 5, 6, 7, 8])
            c['W'] = W
            if W <= 6:
                c['comps'] = None                     # exhaustive, enumerated in the worker
            else:
                comps = [[1] * W, [W], [1, W - 1], [W - 1, 1]] + [random_composition(rng, W) for _ in range(20)]
                c['comps'] = comps
            c['explicit_flag'] = bool(common.stratum(j, 91, 2))          # cache=True passed explicitly or left to the default
        else:
            j = i // 3
            nobj = 1 + common.stratum(j, 92, 3)
            same = bool(common.stratum(j, 93, 2))
            base = gen_cfg(rng, i, tier, pmax=256)
            cfgs = [base]
            for q in range(1, nobj):
                cfgs.append(dict(base) if same else gen_cfg(rng, i + 1000 * q + 1, tier, pmax=256))
            nops = int(rng.integers(6, 15))
            ops, fed = [], [0] * nobj
            for t in range(nops):
                o = int(rng.integers(nobj))
                r = rng.random()
                if r < 0.62 or fed[o] == 0:
                    w = 1 if rng.random() < 0.4 else int(rng.integers(2, 5))
                    ops.append([o, 'feed', w])
                    fed[o] += 1
                elif r < 0.78:
                    ops.append([o, 'peek', int(rng.integers(1, 4)), int(rng.integers(0, 2))])
                elif r < 0.86:
                    # the object's read-only helpers used mid-stream: frequency response (plain / tiled), unit-noise estimate
                    ops.append([o, 'helper', int(rng.integers(0, 5)), int(rng.integers(1, 4))])
                else:
                    ops.append([o, 'reset'])
            for o in range(nobj):                     # every object ends with a seam after whatever came before
                ops.append([o, 'feed', int(rng.integers(1, 3))])
                ops.append([o, 'feed', int(rng.integers(1, 3))])
            c.update(cfgs=cfgs, ops=ops, same=same)
        cases.append(c)
    return cases


# ---------------------------------------------------------------- input streams (worker)

def _family(rng, family, n, P, scale):
    if family == 'gauss':
        x = rng.standard_normal(n)
    elif family == 'impulse':
        x = np.zeros(n)
        for _ in range(int(rng.integers(1, 4))):
            x[int(rng.integers(n))] = float(rng.choice([-1, 1])) * float(rng.uniform(1, 100))
    elif family == 'step':
        x = np.zeros(n)
        x[int(rng.integers(n)):] = float(rng.uniform(-5, 5))
        x += 0.01 * rng.standard_normal(n)
    elif family == 'tone':
        k = int(rng.integers(0, max(1, P // 2)))
        d = float(common.pick(rng, [0.0, 0.0, 0.3, 0.5]))
        x = np.cos(2 * math.pi * (k + d) / P * np.arange(n) + rng.uniform(0, 2 * math.pi))
    elif family == 'ramp':
        x = (np.arange(n) + float(rng.integers(0, 1000))) * 1e-2          # every sample distinct: index errors show
    elif family == 'const':
        x = np.full(n, float(rng.uniform(-4, 4)))
    elif family == 'quantised':
        x = np.clip(np.rint(rng.standard_normal(n) * 20), -128, 127)
    else:
        raise ValueError(family)
    return x * scale


def make_stream(rng, family, dtype, n, P, scale):
    """A stream of n samples in the requested dtype; what is returned IS the input (casts happen here)."""
    x = _family(rng, family, n, P, scale)
    if dtype.startswith('complex'):
        x = x + 1j * _family(rng, family if family not in ('const',) else 'gauss', n, P, scale)
        return x.astype(dtype)
    if dtype == 'int16':
        m = np.max(np.abs(x)) or 1.0
        return np.rint(x / m * 3000).astype(np.int16)
    return x.astype(dtype)


# ---------------------------------------------------------------- oracle helpers

class Ctx:
    def __init__(self, R, pm):
        self.R = R
        self.pm = pm
        self.trunc_reported = False
        self.counts = {}

    def call(self, fn, *a, **k):
        """Call into setigen recording ComplexWarning (discarded imaginary part) as evidence."""
        with warnings.catch_warnings(record=True) as rec:
            warnings.simplefilter('always')
            out = fn(*a, **k)
        nc = sum(1 for w in rec if issubclass(w.category, np.exceptions.ComplexWarning))
        if nc:
            self.R.count('complex_warnings', nc)
        return out

    def new_fb(self, cfg):
        win = tuple(cfg['win']) if isinstance(cfg['win'], list) else cfg['win']
        return self.pm.PolyphaseFilterbank(num_taps=cfg['M'], num_branches=cfg['P'], window_fn=win)

    def oneshot_count(self, cfg, T):
        """Number of spectra the one-shot call returns for a T-window stream (measured, then range-checked)."""
        if T <= 0:
            return 0
        key = (cfg['M'], cfg['P'], str(cfg['win']), T)
        if key not in self.counts:
            M, P = cfg['M'], cfg['P']
            out = self.call(self.new_fb(cfg).channelize, np.zeros(T * M * P), cache=False)
            n = int(np.shape(out)[0])
            self.R.check((T - 1) * M <= n <= (T - 1) * M + 1, 'one-shot-spectrum-count', windows=T, M=M, P=P, got=n,
                         accepted=[(T - 1) * M, (T - 1) * M + 1])
            self.counts[key] = n
        return self.counts[key]


def win_arg(cfg):
    return tuple(cfg['win']) if isinstance(cfg['win'], list) else cfg['win']


def check_window(ctx, h, cfg, key_prefix='window'):
    """Window design clauses. Returns the coefficient array usable by the definition, or None."""
    R = ctx.R
    M, P = cfg['M'], cfg['P']
    N = M * P
    h = np.asarray(h)
    R.count('window_checks')
    if not R.check(h.ndim == 1 and h.size == N and not np.iscomplexobj(h), key_prefix + '-length', shape=list(h.shape), want=N):
        return None
    h = h.astype(np.float64)
    if not R.check(bool(np.all(np.isfinite(h))), key_prefix + '-not-finite', M=M, P=P, win=cfg['win']):
        return None
    sabs = float(np.sum(np.abs(h)))
    hmax = float(np.max(np.abs(h)))
    R.check(abs(math.fsum(h) - N) <= 4 * N * rp.EPS * sabs, key_prefix + '-dc-gain', sum=math.fsum(h), want=N, M=M, P=P,
            win=cfg['win'])
    asym = float(np.max(np.abs(h - h[::-1])))
    R.check(asym <= 64 * rp.EPS * hmax, key_prefix + '-asymmetric', asym=asym, M=M, P=P, win=cfg['win'])
    ref = rp.lowpass_window(M, P, win_arg(cfg))
    tol = (256 + 4 * N) * rp.EPS * float(np.max(np.abs(ref)))
    err = float(np.max(np.abs(h - ref)))
    R.maximum('window_err_over_tol', err / tol)
    R.check(err <= tol, key_prefix + '-differs-from-lowpass-design', err=err, tol=tol, M=M, P=P, win=cfg['win'],
            got_head=h[:4], want_head=ref[:4])
    return h


def shape_ok(ctx, out, K, key):
    out = np.asarray(out)
    return ctx.R.check(out.ndim == 2 and out.shape[1] == K, key, shape=list(out.shape), want_channels=K)


def compare(ctx, out, E, B, key, n0=0, alt=None, detail=None, scale=1.0, margin=True):
    """out vs definition values E (same shape) with per-spectrum bound B. Returns 'ok' | 'truncated' | 'bad' | 'empty'."""
    R = ctx.R
    if out.shape[0] == 0:
        return 'empty'
    Bc = (scale * B)[:, None]
    err = np.abs(out - E)
    ok = err <= Bc
    R.count('spectra_compared', int(out.shape[0]))
    if bool(ok.all()):
        R.check(True, key)
        pos = Bc > 0
        if margin and pos.any():        # margins are reported for double-precision input only (bound not widened)
            R.maximum('err_over_bound', float(np.max(np.where(pos, err / np.where(pos, Bc, 1), 0))))
        R.mark_nontrivial(bool(np.any(np.abs(E) > 100 * Bc)))
        return 'ok'
    if alt is not None:
        A = alt()
        if A is not None and bool((np.abs(out - A) <= Bc).all()):
            if not ctx.trunc_reported:
                n, k = [int(v) for v in np.argwhere(~ok)[0]]
                R.violate('pfb-complex-truncated', where=key, spectrum=n0 + n, channel=k, got=complex(out[n, k]),
                          want=complex(E[n, k]), real_part_only=complex(A[n, k]), bound=float(Bc[n, 0]), **(detail or {}))
                ctx.trunc_reported = True
            else:
                R.count('truncated_comparisons')
            R.mark_nontrivial(True)
            return 'truncated'
    n, k = [int(v) for v in np.argwhere(~ok)[0]]
    R.violate(key, spectrum=n0 + n, channel=k, got=complex(out[n, k]), want=complex(E[n, k]), bound=float(Bc[n, 0]),
              nbad=int((~ok).sum()), ntotal=int(ok.size), **(detail or {}))
    R.mark_nontrivial(True)
    return 'bad'


def prec(x):
    """Rounding unit of the input's precision relative to float64 (1 for float64 / integers, 2^29 for float32 / complex64):
    the property does not say that single-precision input must be processed in double precision."""
    dt = np.asarray(x).dtype
    return max(1.0, float(np.finfo(dt).eps) / rp.EPS) if dt.kind in 'fc' else 1.0


def expected(x, h, cfg, n0, n1, K=None):
    if K is None:
        K = cfg['P'] // 2          # odd branch counts: 'the lower half' is read as the first floor(P/2) channels (what is returned)
    E, S = rp.channelise(x, h, cfg['M'], cfg['P'], n0, n1, K)
    return E, prec(x) * rp.bound(S, cfg['M'], cfg['P'])


def literal_points(ctx, x, h, cfg, E, n0, rng, npts=6):
    """Harness self-check: R-PFB against the literal double loop at a few points (tiny cost)."""
    M, P = cfg['M'], cfg['P']
    if E.shape[0] == 0 or M * P > 4096:
        return
    for _ in range(npts):
        n = int(rng.integers(E.shape[0]))
        k = int(rng.integers(E.shape[1]))
        v = rp.literal(x, h, M, P, n0 + n, k)
        s = float(rp.mass(x, h, M, P, n0 + n, n0 + n + 1)[0])
        if abs(v - E[n, k]) > 4 * (M * P + 16) * rp.EPS * s / math.sqrt(P):
            raise AssertionError(f'R-PFB disagrees with the literal definition at n={n0 + n} k={k}: {v} vs {E[n, k]}')
        ctx.R.count('literal_definition_points')


# ---------------------------------------------------------------- case kinds

def run_oneshot(c, ctx):
    R, pm = ctx.R, ctx.pm
    cfg = c['cfg']
    M, P = cfg['M'], cfg['P']
    MP = M * P
    rng = np.random.default_rng(c['sub'])
    fb = ctx.new_fb(cfg)
    h = check_window(ctx, fb.window, cfg)
    if h is None:
        return
    W = c['W']
    L = W * MP + c['extra']
    if c['extra']:
        R.bucket('oneshot:ragged-length')
    if W == 1:
        R.bucket('oneshot:single-window')
    if W * M * P > 2 ** 20:
        R.bucket('oneshot:more-than-2^20-samples')
    use_cache = bool(c['cache']) and not c['extra']
    if use_cache:
        R.bucket('oneshot:cache-on')
    x = make_stream(rng, c['family'], c['dtype'], L, P, c['scale'])
    x_before = x.copy()
    out = np.asarray(ctx.call(fb.channelize, x, cache=True) if use_cache else ctx.call(fb.channelize, x, cache=False))
    R.count('streams')
    if not np.array_equal(x, x_before):
        R.count('input_array_modified')
    if use_cache:
        R.count('cache_shadow_checks')
        R.check(fb.cache is not None and np.array_equal(np.asarray(fb.cache), x_before[-MP:]),
                'cache-not-tail-of-stream:first-call', M=M, P=P, windows=W)
    else:
        R.check(fb.cache is None, 'uncached-call-touched-cache', M=M, P=P)
    if not shape_ok(ctx, out, P // 2, 'output-channel-count'):
        return
    nmax = rp.max_spectra(L, M, P)
    cnt = out.shape[0]
    R.check((W - 1) * M <= cnt <= nmax, 'one-shot-spectrum-count', got=cnt, accepted=[(W - 1) * M, nmax], M=M, P=P, length=L)
    if cnt > nmax:
        return
    is_c = np.iscomplexobj(x)
    E, B = expected(x, h, cfg, 0, cnt)
    key = 'one-shot-differs-from-definition:' + ('complex-input' if is_c else 'real-input')
    st = compare(ctx, out[:cnt], E, B, key, alt=(lambda: expected(x.real, h, cfg, 0, cnt)[0]) if is_c else None,
                 detail=dict(M=M, P=P, win=cfg['win'], dtype=c['dtype'], length=L, cache=use_cache), margin=prec(x) == 1.0)
    literal_points(ctx, x, h, cfg, E, 0, rng)
    fb._reset_cache()
    R.check(fb.cache is None, 'reset-did-not-clear-cache')

    if is_c:
        # complex input is channelised as real part plus i times imaginary part (the code's own three outputs)
        o_re = np.asarray(ctx.call(fb.channelize, x.real, cache=False))
        o_im = np.asarray(ctx.call(fb.channelize, x.imag, cache=False))
        R.count('complex_clause_checks')
        if o_re.shape == out.shape and o_im.shape == out.shape:
            Bc = 3 * B[:, None]
            want = o_re + 1j * o_im
            good = np.abs(out - want) <= Bc
            if bool(good.all()):
                R.check(True, 'complex-input-not-re-plus-i-im')
            elif bool((np.abs(out - o_re) <= Bc).all()):
                n, k = [int(v) for v in np.argwhere(~good)[0]]
                if not ctx.trunc_reported:
                    R.violate('pfb-complex-truncated', where='ch(x) == ch(Re x), ch(Im x) ignored', spectrum=n, channel=k,
                              got=complex(out[n, k]), want=complex(want[n, k]), M=M, P=P, dtype=c['dtype'])
                    ctx.trunc_reported = True
                else:
                    R.count('truncated_comparisons')
            else:
                n, k = [int(v) for v in np.argwhere(~good)[0]]
                R.violate('complex-input-not-re-plus-i-im', spectrum=n, channel=k, got=complex(out[n, k]),
                          want=complex(want[n, k]), M=M, P=P, dtype=c['dtype'])
        else:
            R.violate('complex-input-not-re-plus-i-im:shape', shapes=[list(out.shape), list(o_re.shape), list(o_im.shape)])
    else:
        # linearity: ch(a x + b y) = a ch(x) + b ch(y), all three computed by the code on the same object
        a, b = c['ab']
        xf = x.astype(np.float64)
        y = make_stream(rng, common.pick(rng, FAMILIES), 'float64', L, P, c['scale'])
        z = a * xf + b * y
        o_y = np.asarray(ctx.call(fb.channelize, y, cache=False))
        o_z = np.asarray(ctx.call(fb.channelize, z, cache=False))
        R.count('linearity_checks')
        if R.check(o_y.shape == out.shape and o_z.shape == out.shape, 'not-linear:shape'):
            Sl = rp.mass(abs(a) * np.abs(xf) + abs(b) * np.abs(y), h, M, P)[:out.shape[0]]
            Bl = 4 * prec(x) * rp.bound(Sl, M, P)[:, None]
            errl = np.abs(o_z - (a * out + b * o_y))
            okl = errl <= Bl
            if bool(okl.all()):
                R.check(True, 'not-linear')
                if (Bl > 0).any():
                    R.maximum('linearity_err_over_bound', float(np.max(errl[Bl[:, 0] > 0] / Bl[Bl[:, 0] > 0])))
            else:
                n, k = [int(v) for v in np.argwhere(~okl)[0]]
                R.violate('not-linear', spectrum=n, channel=k, a=a, b=b, got=complex(o_z[n, k]),
                          want=complex(a * out[n, k] + b * o_y[n, k]), bound=float(Bl[n, 0]), M=M, P=P)
        R.check(fb.cache is None, 'uncached-call-touched-cache', M=M, P=P)

        # module-level get_pfb_voltages: same definition, channels k <= P/2, window designed from the name
        hv = check_window(ctx, pm.get_pfb_window(M, P, win_arg(cfg)), cfg, key_prefix='window-function')
        ov = np.asarray(ctx.call(pm.get_pfb_voltages, x, M, P, win_arg(cfg)))
        R.count('pfb_voltages_checks')
        if hv is not None and shape_ok(ctx, ov, P // 2 + 1, 'pfb-voltages-channel-count'):
            cv = ov.shape[0]
            R.check((W - 1) * M <= cv <= nmax, 'pfb-voltages-spectrum-count', got=cv, accepted=[(W - 1) * M, nmax])
            cv = min(cv, nmax)
            Ev, Bv = expected(x, hv, cfg, 0, cv, K=P // 2 + 1)
            compare(ctx, ov[:cv], Ev, Bv, 'pfb-voltages-differ-from-definition', detail=dict(M=M, P=P, win=cfg['win']),
                    margin=prec(x) == 1.0)


def feed_stream(ctx, fb, cfg, x, h, comp, E, B, alt_full, explicit_flag=True, tag=None, first_real=False):
    """Feed x (a whole number of windows) chunk by chunk according to the composition `comp` into fb (fresh).
    E, B: definition of the whole stream. Returns the list of outputs (or None when alignment was lost)."""
    R = ctx.R
    M, P = cfg['M'], cfg['P']
    MP = M * P
    T, emitted, outs = 0, 0, []
    mg = prec(x) == 1.0
    xin = x.copy()                   # the caller's stream array; chunks are handed over as slices (views) of it
    for j, w in enumerate(comp):
        chunk = xin[T * MP:(T + w) * MP]
        if first_real and j == 0 and np.iscomplexobj(xin):
            chunk = np.ascontiguousarray(chunk.real)      # the stream starts with a real-dtype chunk (its imaginary part is zero)
        o = np.asarray(ctx.call(fb.channelize, chunk, cache=True) if explicit_flag else ctx.call(fb.channelize, chunk))
        if not R.check(np.array_equal(xin, x), 'channelize-modified-the-callers-input-array', call=j, composition=comp, M=M, P=P,
                       changed=int(np.sum(xin != x))):
            return None
        R.count('chunk_calls')
        pos = 'first-call' if j == 0 else 'later-call'
        if not shape_ok(ctx, o, P // 2, 'output-channel-count'):
            return None
        want_cnt = ctx.oneshot_count(cfg, T + w) - ctx.oneshot_count(cfg, T)
        if not R.check(o.shape[0] == want_cnt, 'chunk-spectrum-count:' + pos, got=int(o.shape[0]), want=want_cnt, M=M, P=P,
                       composition=comp, call=j):
            return None
        R.count('cache_shadow_checks')
        R.check(fb.cache is not None and np.array_equal(np.asarray(fb.cache), x[(T + w) * MP - MP:(T + w) * MP]),
                'cache-not-tail-of-stream:' + pos, M=M, P=P, composition=comp, call=j,
                cache_len=None if fb.cache is None else int(np.size(fb.cache)))
        if want_cnt:
            n0, n1 = emitted, emitted + want_cnt
            if n1 > E.shape[0]:
                return None                             # one-shot count above the definition's range: already reported
            # which part of this call's output is the first to be wrong decides the structural position
            seam_hi = min(n1, T * M)                    # spectra starting inside previously fed samples
            detail = dict(M=M, P=P, win=cfg['win'], composition=comp, call=j)
            if j > 0 and seam_hi > n0:
                R.count('seam_spectra_compared', seam_hi - n0)
                st = compare(ctx, o[:seam_hi - n0], E[n0:seam_hi], B[n0:seam_hi],
                             'chunk-output-differs-from-definition:seam', n0=n0,
                             alt=(lambda: alt_full()[n0:seam_hi]) if alt_full else None, detail=detail, margin=mg)
                if st != 'bad' and n1 > seam_hi:
                    compare(ctx, o[seam_hi - n0:], E[seam_hi:n1], B[seam_hi:n1],
                            'chunk-output-differs-from-definition:interior', n0=seam_hi,
                            alt=(lambda: alt_full()[seam_hi:n1]) if alt_full else None, detail=detail, margin=mg)
            else:
                compare(ctx, o, E[n0:n1], B[n0:n1], 'chunk-output-differs-from-definition:' + ('first-call' if j == 0 else 'interior'),
                        n0=n0, alt=(lambda: alt_full()[n0:n1]) if alt_full else None, detail=detail, margin=mg)
        outs.append(o)
        emitted += want_cnt
        T += w
    return outs


def run_compose(c, ctx):
    R = ctx.R
    cfg = c['cfg']
    M, P = cfg['M'], cfg['P']
    MP = M * P
    W = c['W']
    rng = np.random.default_rng(c['sub'])
    fb0 = ctx.new_fb(cfg)
    h = check_window(ctx, fb0.window, cfg)
    if h is None:
        return
    x = make_stream(rng, c['family'], c['dtype'], W * MP, P, c['scale'])
    is_c = np.iscomplexobj(x)
    comps = c['comps'] if c['comps'] is not None else compositions(W)
    first_real = bool(is_c and c['sub'] % 3 == 0 and W >= 3)
    if first_real:
        # a stream whose first windows are purely real and are handed over as a real-dtype array, the rest complex
        wmax = max(cc[0] for cc in comps)
        x = x.copy()
        x[:wmax * MP] = x[:wmax * MP].real
        R.bucket('stream:real-dtype-first-chunk-then-complex')
    R.bucket('compose:exhaustive' if c['comps'] is None else 'compose:sampled')
    E, B = expected(x, h, cfg, 0, rp.max_spectra(len(x), M, P))
    _alt = {}

    def alt_full():
        if 'A' not in _alt:
            _alt['A'] = expected(x.real, h, cfg, 0, E.shape[0])[0]
        return _alt['A']

    one = np.asarray(ctx.call(fb0.channelize, x, cache=False))
    if not shape_ok(ctx, one, P // 2, 'output-channel-count'):
        return
    n_one = one.shape[0]
    R.check(n_one == ctx.oneshot_count(cfg, W), 'one-shot-count-depends-on-data', got=n_one, zeros=ctx.oneshot_count(cfg, W))
    if n_one <= E.shape[0]:
        compare(ctx, one, E[:n_one], B[:n_one], 'one-shot-differs-from-definition:' + ('complex-input' if is_c else 'real-input'),
                alt=(lambda: alt_full()[:n_one]) if is_c else None, detail=dict(M=M, P=P, win=cfg['win'], dtype=c['dtype']),
                margin=prec(x) == 1.0)
    literal_points(ctx, x, h, cfg, E, 0, rng, npts=3)
    for comp in comps:
        fb = ctx.new_fb(cfg)
        R.count('streams')
        if comp[0] == 1 and len(comp) > 1:
            R.bucket('compose:starts-with-one-window')
        outs = feed_stream(ctx, fb, cfg, x, h, comp, E, B, alt_full if is_c else None, explicit_flag=c['explicit_flag'],
                           first_real=first_real)
        if outs is None:
            continue
        cat = np.concatenate(outs, axis=0) if outs else np.zeros((0, P // 2), dtype=complex)
        # the literal statement: the chunked stream returns the spectra of the one-shot call
        if R.check(cat.shape == one.shape, 'chunked-count-differs-from-one-shot', got=list(cat.shape), one_shot=list(one.shape),
                   composition=comp, M=M, P=P):
            if np.array_equal(cat, one):
                R.count('chunked_bit_equal_to_one_shot')
                R.check(True, 'chunked-values-differ-from-one-shot')
            else:
                R.count('chunked_not_bit_equal_to_one_shot')
                d = np.abs(cat - one)
                good = d <= 2 * B[:n_one, None]
                if not bool(good.all()):
                    n, k = [int(v) for v in np.argwhere(~good)[0]]
                    R.violate('chunked-values-differ-from-one-shot', spectrum=n, channel=k, got=complex(cat[n, k]),
                              one_shot=complex(one[n, k]), composition=comp, M=M, P=P)
                else:
                    R.check(True, 'chunked-values-differ-from-one-shot')
    # advisory probe (no verdict): the caller re-uses one buffer for successive single-window chunks
    if not is_c and W >= 2 and c['dtype'] == 'float64':
        fb = ctx.new_fb(cfg)
        buf = np.empty(MP)
        outs = []
        for t in range(W):
            buf[:] = x[t * MP:(t + 1) * MP]
            outs.append(np.asarray(ctx.call(fb.channelize, buf, cache=True)))
        cat = np.concatenate(outs, axis=0)
        R.count('alias_probe')
        if cat.shape != one.shape or not bool((np.abs(cat - one) <= 2 * B[:n_one, None]).all()):
            R.count('alias_probe_seam_corrupted')


def run_script(c, ctx):
    R = ctx.R
    cfgs = c['cfgs']
    nobj = len(cfgs)
    rng = np.random.default_rng(c['sub'])
    if nobj >= 2:
        R.bucket('script:objects>=2')
        R.bucket('script:same-config' if c['same'] else 'script:mixed-config')
    ops = c['ops']
    # data of every op, fixed before anything runs (so that the isolated replays see the same inputs)
    data = []
    for op in ops:
        cfg = cfgs[op[0]]
        MP = cfg['M'] * cfg['P']
        if op[1] == 'feed':
            data.append(make_stream(rng, c['family'], c['dtype'], op[2] * MP, cfg['P'], c['scale']))
        elif op[1] == 'peek':
            extra = int(rng.integers(1, MP)) if op[3] else 0
            data.append(make_stream(rng, common.pick(rng, FAMILIES), c['dtype'], op[2] * MP + extra, cfg['P'], c['scale']))
        else:
            data.append(None)
    fbs = [ctx.new_fb(cfg) for cfg in cfgs]
    hs = [check_window(ctx, fb.window, cfg) for fb, cfg in zip(fbs, cfgs)]
    if any(h is None for h in hs):
        return
    stream = [None] * nobj          # samples fed with cache on since the last reset
    emitted = [0] * nobj
    outputs = []
    lost = [False] * nobj
    for t, op in enumerate(ops):
        o_idx, what = op[0], op[1]
        cfg, fb, h = cfgs[o_idx], fbs[o_idx], hs[o_idx]
        M, P = cfg['M'], cfg['P']
        MP = M * P
        if what == 'reset':
            if stream[o_idx] is not None:
                R.bucket('script:reset-mid-stream')
            fb._reset_cache()
            R.check(fb.cache is None, 'reset-did-not-clear-cache')
            stream[o_idx], emitted[o_idx], lost[o_idx] = None, 0, False
            outputs.append(None)
            continue
        if what == 'helper':
            R.bucket('script:read-only-helper-mid-stream' if stream[o_idx] is not None else 'script:read-only-helper-before-stream')
            cache_before = None if fb.cache is None else np.array(fb.cache, copy=True)
            with common.quiet():
                if op[2] == 0:
                    ctx.call(fb.get_response, fftlength=2 * op[3] * M)
                elif op[2] == 1:
                    ctx.call(fb.tile_response, 2, fftlength=2 * op[3] * M)
                elif op[2] == 2:
                    ctx.call(fb.estimate_channelized_stds, factor=3 * M + op[3], seed=7)
                else:
                    # a check-point: the stream is carried on with a copy (deepcopy / pickle round trip) of the filterbank object
                    import copy as _copy
                    import pickle as _pickle
                    R.bucket('script:continued-on-a-copy')
                    fb = _copy.deepcopy(fb) if op[2] == 3 else _pickle.loads(_pickle.dumps(fb))
                    fbs[o_idx] = fb
            R.check(np.array_equal(np.asarray(fb.window, dtype=np.float64), h), 'read-only-helper-changed-the-window', helper=op[2], M=M, P=P)
            same_cache = (fb.cache is None) if cache_before is None else \
                (fb.cache is not None and np.array_equal(np.asarray(fb.cache), cache_before))
            R.check(same_cache, 'read-only-helper-touched-cache', helper=op[2], M=M, P=P)
            outputs.append(None)
            continue
        d = data[t]
        is_c = np.iscomplexobj(d)
        if what == 'peek':
            if stream[o_idx] is not None:
                R.bucket('script:uncached-mid-stream')
            cache_before = None if fb.cache is None else np.array(fb.cache, copy=True)
            # the flag by keyword or in the position the signature documents for it: channelize(x, cache)
            o = np.asarray(ctx.call(fb.channelize, d.copy(), cache=False) if t % 2 else ctx.call(fb.channelize, d.copy(), False))
            outputs.append(o)
            same_cache = (fb.cache is None) if cache_before is None else \
                (fb.cache is not None and np.array_equal(np.asarray(fb.cache), cache_before))
            R.check(same_cache, 'uncached-call-touched-cache', M=M, P=P, op=t)
            if not shape_ok(ctx, o, P // 2, 'output-channel-count'):
                continue
            Wd = len(d) // MP
            nmax = rp.max_spectra(len(d), M, P)
            R.check((Wd - 1) * M <= o.shape[0] <= nmax, 'one-shot-spectrum-count', got=int(o.shape[0]),
                    accepted=[(Wd - 1) * M, nmax], M=M, P=P, length=len(d))
            cnt = min(o.shape[0], nmax)
            E, B = expected(d, h, cfg, 0, cnt)
            compare(ctx, o[:cnt], E, B, 'one-shot-differs-from-definition:' + ('complex-input' if is_c else 'real-input'),
                    alt=(lambda: expected(d.real, h, cfg, 0, cnt)[0]) if is_c else None,
                    detail=dict(M=M, P=P, win=cfg['win'], op=t, mid_stream=stream[o_idx] is not None), margin=prec(d) == 1.0)
            continue
        # feed
        w = op[2]
        first = stream[o_idx] is None
        s_new = d.copy() if first else np.concatenate([stream[o_idx], d])
        T0 = 0 if first else len(stream[o_idx]) // MP
        o = np.asarray(ctx.call(fb.channelize, d.copy(), cache=True) if t % 3 else ctx.call(fb.channelize, d.copy(), True))
        outputs.append(o)
        stream[o_idx] = s_new
        R.count('chunk_calls')
        pos = 'first-call' if first else 'later-call'
        R.count('cache_shadow_checks')
        R.check(fb.cache is not None and np.array_equal(np.asarray(fb.cache), s_new[-MP:]),
                'cache-not-tail-of-stream:' + pos, M=M, P=P, op=t, objects=nobj)
        if lost[o_idx] or not shape_ok(ctx, o, P // 2, 'output-channel-count'):
            lost[o_idx] = True
            continue
        want_cnt = ctx.oneshot_count(cfg, T0 + w) - ctx.oneshot_count(cfg, T0)
        if not R.check(o.shape[0] == want_cnt, 'chunk-spectrum-count:' + pos, got=int(o.shape[0]), want=want_cnt, M=M, P=P, op=t):
            lost[o_idx] = True                          # alignment unknown until the next reset
            continue
        n0, n1 = emitted[o_idx], emitted[o_idx] + want_cnt
        emitted[o_idx] = n1
        if want_cnt == 0 or n1 > rp.max_spectra(len(s_new), M, P):
            continue
        E, B = expected(s_new, h, cfg, n0, n1)
        alt = (lambda: expected(s_new.real, h, cfg, n0, n1)[0]) if is_c else None
        detail = dict(M=M, P=P, win=cfg['win'], op=t, objects=nobj)
        seam_hi = min(n1, T0 * M)
        if not first and seam_hi > n0:
            R.count('seam_spectra_compared', seam_hi - n0)
            st = compare(ctx, o[:seam_hi - n0], E[:seam_hi - n0], B[:seam_hi - n0], 'chunk-output-differs-from-definition:seam',
                         n0=n0, alt=(lambda: alt()[:seam_hi - n0]) if alt else None, detail=detail, margin=prec(d) == 1.0)
            if st != 'bad' and n1 > seam_hi:
                compare(ctx, o[seam_hi - n0:], E[seam_hi - n0:], B[seam_hi - n0:], 'chunk-output-differs-from-definition:interior',
                        n0=seam_hi, alt=(lambda: alt()[seam_hi - n0:]) if alt else None, detail=detail, margin=prec(d) == 1.0)
        else:
            compare(ctx, o, E, B, 'chunk-output-differs-from-definition:' + ('first-call' if first else 'interior'), n0=n0,
                    alt=alt, detail=detail, margin=prec(d) == 1.0)
    R.count('streams', nobj)
    # isolation: the same per-object history on a fresh object, alone, must give the same outputs
    if nobj >= 2:
        for q in range(nobj):
            fb = ctx.new_fb(cfgs[q])
            R.count('isolation_replays')
            for t, op in enumerate(ops):
                if op[0] != q:
                    continue
                if op[1] == 'reset':
                    fb._reset_cache()
                    continue
                if op[1] == 'helper':
                    continue
                o = np.asarray(ctx.call(fb.channelize, data[t].copy(), cache=(op[1] == 'feed')))
                got = outputs[t]
                same = o.shape == got.shape and (np.array_equal(o, got) or (
                    o.size and got.size and bool((np.abs(o - got) <= 1e-9 * max(1e-300, float(np.max(np.abs(o))))).all())))
                if not R.check(bool(same), 'interleaved-objects-interfere', op=t, object=q, objects=nobj,
                               shapes=[list(o.shape), list(got.shape)], same_config=c['same']):
                    break


def run_case(c, R):
    common.import_setigen()
    from setigen.voltage import polyphase_filterbank as pm
    ctx = Ctx(R, pm)
    R.bucket('kind:' + c['kind'])
    R.bucket('dtype:' + c['dtype'])
    R.bucket('family:' + c['family'])
    for cfg in ([c['cfg']] if 'cfg' in c else c['cfgs']):
        R.bucket('window:' + (cfg['win'][0] if isinstance(cfg['win'], list) else cfg['win']))
        if cfg['M'] in (1, 12):
            R.bucket(f"taps:{cfg['M']}")
        if cfg['P'] == 2:
            R.bucket('branches:2')
        if cfg['P'] >= 128:
            R.bucket('branches:>=128')
        if cfg['P'] >= 512:
            R.bucket('branches:>=512')
        if cfg['P'] % 2:
            R.bucket('branches:odd')
        if any(cfg['P'] % q == 0 for q in (13, 17, 97)):
            R.bucket('branches:prime-factor>=13')
    R.bucket('input:complex' if c['dtype'].startswith('complex') else 'input:real')
    with np.errstate(all='ignore'):
        {'oneshot': run_oneshot, 'compose': run_compose, 'script': run_script}[c['kind']](c, ctx)


MANIFEST = {
    'text': 'Runtime monitoring of PolyphaseFilterbank.channelize, get_pfb_voltages and the window design: every returned '
            'spectrum of a stratified workload (taps 1-12, even branches 2-256/1024, five window families, real and complex '
            'input of five dtypes and seven signal families) is compared with an independent FIR + explicit-DFT-matrix '
            'reference within a derived rounding bound; every composition of up to 6 windows into chunks (sampled for 7-8) and '
            'random scripts of cached / uncached calls and cache resets over 1-3 interleaved filterbank objects are replayed '
            'against a shadow of the stream (k-th concatenated spectrum = definition spectrum k, per-call counts, cache = '
            'tail of the stream, equality with the one-shot call, isolation of objects); linearity and '
            'ch(x) = ch(Re x) + i ch(Im x) are checked on the code\'s own outputs.',
    'note': '; '.join(ASSUMPTIONS),
    'technique': 'post-condition monitoring against an executable reference model with a shadow of the streaming cache '
                 '(history-based), exhaustive chunk compositions, metamorphic linearity / complex-split relations',
}
