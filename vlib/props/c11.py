"""C11 -- synthetic noise has the requested distribution; SNR bookkeeping is consistent.

Monitor: post-conditions on Frame.add_noise / add_noise_from_obs / zero_data / get_intensity / get_snr and on
DataStream.add_noise / BackgroundDataStream.add_noise / update_noise / get_total_noise_std, driven over stratified
histories. Statistical clauses are judged against bands derived from the claimed law (vlib/ref/noise.py), exact
clauses against an independent model of the bookkeeping state.
"""
import math
from fractions import Fraction
import numpy as np

from .. import common

ID = 'C11'
LEVEL = 'exploration'
RULE = ('frame histories: first-noise kind {chi2, gaussian, normal alias, truncated, obs chi2 supplied/default tables, obs gaussian '
        'shared/independent index with/without floor table, default tables} x df*dt class {integer, rounds down, tie, rounds up, '
        'realistic products} x history pattern {single, repeated, signal between, signal first, zero_data and restart, long mixed} '
        'x prior content {empty, zero data array, non-zero data array} x shape (4e3..2.6e5 pixels quick, ..1e6 thorough, tchans 1..512), '
        'x_mean 1e-3..1e9; voltage: bare streams, antennas and arrays (1-4 antennas, 1-2 polarisations, explicit delays) with 1-4 '
        'noise sources per stream and background, update_noise in between, two sample requests; non-trivial = at least one '
        'distribution test on >= 4096 samples or one delivered-voltage test evaluated; distinct = distinct descriptor')
ASSUMPTIONS = [
    'every statistical test has two-sided false-alarm probability <= 2e-9 under the claimed law (exact chi-squared/normal/binomial '
    'laws, Pearson statistic of the PIT in 32 cells vs chi2_31, Kolmogorov distance vs the DKW-Massart bound, truncated Chernoff '
    'bound for the second moment of chi-squared noise about the claimed mean); <= 3e5 tests per thorough run => family-wise < 1e-3',
    'round(df*dt): when the exact product is within 1e-9 of a half-integer either neighbouring integer is accepted for k',
    'sigma-clipped re-estimate = median-centred, 3 sigma, at most 5 iterations, mean and population std of the survivors '
    '(parameters taken from the anchored estimator); compared at rel 1e-9, and if a clip boundary decision is within 1e-12 '
    'relative of a sample either decision is accepted',
    'a frame that holds injected signals but no noise yet is neither clearly "empty" nor clearly not: after its first noise either '
    'the requested parameters or the sigma-clipped re-estimate is accepted',
    'default observation tables: an entry may be used as stored or scaled by dt/1.4316557653333333 (the documented rescaling to the '
    'frame time resolution); all three parameters of one draw must use the same scaling',
    'without index sharing the documented max(mean, std) rule applies: the mean may be an entry of the mean table or of the '
    'deviation table',
    'requested parameters are compared exactly (mean, deviation) resp. at rel 1e-12 (x_mean*sqrt(2/k)); intensity/snr at rel 1e-12',
    'delivered voltages: sample mean exactly normal, sum of squares about the claimed mean exactly chi-squared (sources are '
    'independent Gaussian; a delayed background is still white)',
]

KINDS = ['chi2', 'gaussian', 'normal-alias', 'truncated', 'obs-chi2-supplied', 'obs-chi2-default', 'obs-gauss-share',
         'obs-gauss-share-min', 'obs-gauss-noshare', 'obs-gauss-noshare-min', 'obs-gauss-default']
# (class, product) ; None => realistic df, dt
DFDT = [('integer', 1.0), ('rounds-down', 1.4), ('tie', 1.5), ('rounds-up', 1.7), ('tie', 2.5), ('rounds-up', 2.6),
        ('rounds-down', 10.3), ('tie', 10.5), ('rounds-up', 10.7), ('integer', 51.0), ('ugly', None), ('ugly', None),
        ('rounds-down', 1.25), ('rounds-up', 3.75)]
HIST = ['N', 'NN', 'NSN', 'SN', 'NZN', 'NSNZSNSN', 'NNSNN', 'ZNSN', 'NNZN', 'NNZNN']
PRIOR = ['empty', 'empty', 'empty', 'zeros-data', 'nonzero-data']
SHAPES_Q = [(16, 256), (32, 128), (64, 64), (1, 4096), (3, 1500), (7, 600), (16, 1024), (32, 1024), (64, 256), (128, 128),
            (100, 300), (16, 512), (256, 256), (512, 512)]
SHAPES_T = [(64, 4096), (256, 1024), (512, 512), (16, 65536), (256, 4096), (1000, 1000)]
OBS_DT = 1.4316557653333333
VKINDS = ['stream', 'stream-update', 'antenna', 'array', 'array', 'array-update']


def required(tier):
    b = {f'kind:{k}': 100 for k in KINDS}
    b.update({'dfdt:integer': 40, 'dfdt:rounds-down': 150, 'dfdt:tie': 100, 'dfdt:rounds-up': 150})
    b.update({f'prior:{k}': 100 for k in set(PRIOR)})
    b['frame:more-than-2^20-pixels'] = 4
    b['scale:below-1e-8'] = 40
    b.update({'first-noise-on-empty': 400, 'reestimate': 500, 'signal-before-first-noise': 100, 'zero-data': 150,
              'signal-between-noise': 300, 'no-noise-raises': 500, 'share:on': 60, 'share:off': 60, 'tables:list': 200,
              'tables:ndarray': 200, 'obs-later-identified': 50, 'max-rule-mean-from-std-table': 15,
              'v:stream': 30, 'v:antenna': 15, 'v:array': 45, 'v:update': 30, 'v:two-pols': 30, 'v:background': 45,
              'orient:asc': 300, 'orient:desc': 300})
    return {'buckets': b,
            'counters': {'noise_calls': 1500, 'stat_tests': 4000, 'samples_tested': 15_000_000, 'clip_removed_pixels': 100_000,
                         'snr_roundtrips': 8000, 'stream_std_checks': 1500, 'voltage_series_tested': 300},
            'checks': 40000, 'nontrivial': 800}


# ---------------------------------------------------------------------------------------------- generator

def _tables(rng, kind, base):
    """Small tables with pairwise distinct values so that the chosen index is identifiable."""
    if kind == 'obs-chi2-supplied':
        L = int(rng.integers(1, 9))
        M = base * 1.6 ** rng.permutation(L) * rng.uniform(1.0, 1.05)
        S = base * 0.037 * 1.3 ** rng.permutation(L + 1)
        m = base * 0.011 * 1.2 ** rng.permutation(L + 2)
        return dict(M=M.tolist(), S=S.tolist(), m=m.tolist(), share=bool(rng.integers(2)))
    if kind in ('obs-gauss-share', 'obs-gauss-share-min'):
        L = int(rng.integers(1, 9))
        M = base * (1 + 0.37 * rng.permutation(L)) * rng.uniform(1.0, 1.05)
        if rng.random() < 0.25:
            M = -M
        S = base * 0.05 * (1 + 0.21 * rng.permutation(L)) * rng.uniform(1.0, 1.05)
        t = dict(M=M.tolist(), S=S.tolist(), m=None, share=True)
        if kind.endswith('min'):
            t['m'] = (M + rng.uniform(-1.5, 0.5, size=L) * S).tolist()
        return t
    # independent indices: every combination must clip a sizeable fraction so that the floor is identifiable
    LM, LS, Lm = (int(x) for x in rng.integers(1, 9, size=3))
    if LM == LS:
        LS = LS % 8 + 1                      # unequal lengths: a shared index would be impossible
    small = rng.random() < 0.35              # mean table below the deviation table => max(mean, std) rule picks std
    f = rng.uniform(1.0, 1.05)
    if small:
        M = base * f * (3 + 0.1 * rng.permutation(LM)) / 100
        S = base * f * (10 + 0.7 * rng.permutation(LS)) / 100
        m = base * f * (5 + 0.9 * rng.permutation(Lm)) / 100
    else:
        M = base * f * (100 + 0.3 * rng.permutation(LM)) / 100
        S = base * f * (10 + 0.7 * rng.permutation(LS)) / 100
        m = base * f * (95 + 0.9 * rng.permutation(Lm)) / 100
    return dict(M=M.tolist(), S=S.tolist(), m=(m.tolist() if kind.endswith('min') else None), share=False)


def _noise_op(rng, kind, base, i):
    op = dict(op='noise', kind=kind)
    if kind == 'chi2':
        op.update(mean=float(base), ignored_args=bool(rng.random() < 0.3))
    elif kind in ('gaussian', 'normal-alias', 'truncated'):
        r = rng.random()
        mean = 0.0 if r < 0.1 else (-base if r < 0.3 else base)
        std = float(10 ** rng.uniform(-3, 0.5) * base)
        op.update(mean=float(mean), std=std)
        if kind == 'truncated':
            cfl = float(common.pick(rng, [-3.0, -1.5, -0.5, 0.0, 0.5, 1.0, float(rng.uniform(-3, 1))]))
            op.update(min=(0.0 if (rng.random() < 0.2 and abs(mean) <= 3 * std) else float(mean + cfl * std)))
    elif kind in ('obs-chi2-default', 'obs-gauss-default'):
        pass
    else:
        op.update(tables=_tables(rng, kind, base), as_list=bool(common.stratum(i, 111, 2)))
    return op


def _frame_case(rng, i, tier):
    kind = common.stratum(i, 112, KINDS)
    cls, prod = common.stratum(i, 113, DFDT)
    hist = common.stratum(i, 114, HIST)
    prior = common.stratum(i, 115, PRIOR)
    if prod is None:
        while True:
            df, dt = float(common.pick(rng, common.UGLY_DF)), float(common.pick(rng, common.UGLY_DT))
            if df * dt >= 1.0:
                break
    elif cls == 'tie' or rng.random() < 0.5:
        dt = float(common.pick(rng, [1.0, 0.5, 2.0, 4.0]))
        df = prod / dt
    else:
        dt = float(common.pick(rng, common.UGLY_DT))
        df = prod / dt
    shapes = SHAPES_Q
    if tier == 'thorough' and i % 40 == 0:
        shapes = SHAPES_T
    tch, fch = shapes[int(rng.integers(len(shapes)))]
    if tier == 'quick' and tch * fch > 70000 and i % 8:
        tch, fch = SHAPES_Q[int(rng.integers(12))]
    if common.stratum(i, 121, 90 if tier == 'quick' else 300) == 0:
        # a frame of more than 2^20 pixels whose row count is not a power of two (a library that draws large frames in pieces must
        # still fill every row)
        tch, fch = common.pick(rng, [(40, 65536), (21, 100000), (33, 40000), (3, 600000)])
        kind, hist = 'chi2', 'N'
    if tch * fch > 300000:
        hist = hist[:3]
    base = float(10 ** rng.uniform(-3, 9))
    if common.stratum(i, 116, 13) == 5:
        base = float(10 ** rng.uniform(-13, -9))      # every parameter far below 1e-8 in absolute value (still a valid noise level)
    ops = []
    first = True
    for ch in hist:
        if ch == 'N':
            k = kind if first else KINDS[int(rng.integers(len(KINDS)))]
            b = base if first else base * float(10 ** rng.uniform(-1, 1))
            ops.append(_noise_op(rng, k, b, i))
            first = False
        elif ch == 'S':
            ops.append(dict(op='signal', level=float(10 ** rng.uniform(0.7, 2)), pos=float(rng.uniform(0.1, 0.9)),
                            drift=float(rng.uniform(-1, 1)), width=float(rng.uniform(2, 20))))
        else:
            ops.append(dict(op='zero'))
    return dict(what='frame', fchans=fch, tchans=tch, df=df, dt=dt, fch1=float(common.pick(rng, common.UGLY_FCH1[:6])),
                asc=bool(common.stratum(i, 117, 2)), prior=prior, base=base, ops=ops, sub=int(rng.integers(2 ** 31)))


def _voltage_case(rng, j, tier):
    vk = common.stratum(j, 118, VKINDS)
    pols = 1 + common.stratum(j, 119, 2)
    scale = float(10 ** rng.uniform(-2, 3))

    def ns():
        r = rng.random()
        return (float(rng.normal() * scale if r < 0.5 else 0.0), float(0.0 if r > 0.95 else scale * 10 ** rng.uniform(-1, 1)))

    c = dict(what='voltage', vkind=vk, pols=pols, sr=float(common.pick(rng, [3e9, 2.4e9, 1.7e8, 1e6])),
             asc=bool(common.stratum(j, 120, 2)), sub=int(rng.integers(2 ** 31)),
             n=int(common.pick(rng, [16384, 40000, 65536, 100001] if tier == 'quick' else [65536, 100001, 400000])))
    ops = []
    if vk.startswith('stream'):
        for q in range(int(rng.integers(1, 5))):
            ops.append(('own', 0, 0) + ns())
            if vk == 'stream-update' and q == 0:
                ops.append(('update', 0, 0, int(common.pick(rng, [10000, 5000, 30000])), 0.0))
        if rng.random() < 0.5:
            ops.insert(int(rng.integers(len(ops) + 1)), ('signal', 0, 0, float(scale), 0.0))
        c.update(A=1, pols=1, delays=[0])
    elif vk == 'antenna':
        for q in range(int(rng.integers(1, 4)) * pols):
            ops.append(('own', 0, q % pols) + ns())
        c.update(A=1, delays=[0])
    else:
        A = int(rng.integers(1, 5))
        delays = [int(x) for x in rng.integers(0, 50, size=A)]
        if rng.random() < 0.3:
            delays[0] = 0
        for a in range(A):
            for p in range(pols):
                for _ in range(int(rng.integers(0, 3)) if rng.random() < 0.7 else 1):
                    ops.append(('own', a, p) + ns())
        for p in range(pols):
            for _ in range(int(rng.integers(1, 4))):
                ops.append(('bg', 0, p) + ns())
        order = rng.permutation(len(ops))
        ops = [ops[int(o)] for o in order]
        if vk == 'array-update':
            p = int(rng.integers(pols))
            at = int(rng.integers(1, len(ops) + 1))
            ops.insert(at, ('bg-update', 0, p, int(common.pick(rng, [10000, 20000])), 0.0))
            ops.append(('bg', 0, p) + ns())
        c.update(A=A, delays=delays)
    c['ops'] = [list(o) for o in ops]
    return c


def gen_cases(seed, tier):
    rng = np.random.default_rng([seed, 11])
    nf, nv = (1232, 180) if tier == 'quick' else (24640, 3600)
    cases = [_frame_case(rng, i, tier) for i in range(nf)]
    cases += [_voltage_case(rng, j, tier) for j in range(nv)]
    return cases


# ---------------------------------------------------------------------------------------------- oracle helpers

def k_candidates(df, dt):
    """k = 4*round(df*dt) from the exact product; both neighbours at a tie. Returns (candidates, class)."""
    q = Fraction(df) * Fraction(dt)
    fl = math.floor(q)
    frac = q - fl
    if frac == 0:
        return [4 * fl], 'integer'
    if abs(frac - Fraction(1, 2)) <= Fraction(1, 10 ** 9):
        return [4 * fl, 4 * (fl + 1)], 'tie'
    if frac < Fraction(1, 2):
        return [4 * fl], 'rounds-down'
    return [4 * (fl + 1)], 'rounds-up'


def rel_eq(a, b, rel):
    a, b = float(a), float(b)
    return abs(a - b) <= rel * max(abs(a), abs(b)) or a == b


def stats_match(got, want, rel):
    gm, gs = float(got[0]), float(got[1])
    wm, ws = want
    scale = max(abs(wm), abs(ws))
    return abs(gm - wm) <= rel * scale and abs(gs - ws) <= rel * max(abs(ws), 1e-300)


def clip_reference(rn, data):
    """Sigma-clip estimate plus the alternatives obtained when boundary decisions are nudged by 1e-12 relative."""
    outs = [rn.clip_stats(data)]
    for s in (3.0 * (1 - 1e-12), 3.0 * (1 + 1e-12)):
        o = rn.clip_stats(data, sigma=s)
        if o[2] != outs[0][2]:
            outs.append(o)
    return outs


def run_tests(R, results, keybase, suffix=''):
    """Record one R.check per test; returns True when all passed."""
    allok = True
    for name, ok, det in results:
        R.count('stat_tests')
        R.check(ok, f'{keybase}-{name}{suffix}', **det)
        allok = allok and ok
        if name == 'pit':
            R.maximum('pearson_over_max', det['pearson'] / det['max'])
        elif name == 'ks':
            R.maximum('ks_over_dkw', det['d'] / det['eps'])
        elif name == 'mean' and 'z' in det:
            R.maximum('mean_z_over_zmax', abs(det['z']) / 5.9978)
        elif name == 'variance':
            lo, hi = det['band']
            R.maximum('variance_dev_over_band', max((det['ratio'] - 1) / (hi - 1), (1 - det['ratio']) / (1 - lo)))
    return allok


def best_candidate(res, passing):
    """At a rounding tie two k are admissible: report the admissible one that fits the variance best (the other one may pass
    or fail, it is not the claim being judged); if none passes, the first."""
    if not passing:
        return res[0][0]

    def dev(kk):
        for name, ok, det in dict(res)[kk]:
            if name == 'variance':
                return abs(det['ratio'] - 1.0)
        return 0.0
    return min(passing, key=dev)


class FrameModel:
    """What the property lets us know about the frame's noise estimates."""

    def __init__(self, empty, est):
        self.pristine = empty          # data identically zero
        self.noise_since_reset = not empty
        self.est = est                 # list of acceptable (mean, std)

    def noiseless(self):
        return not self.noise_since_reset


# ---------------------------------------------------------------------------------------------- frame cases

def run_case(c, R):
    if c['what'] == 'voltage':
        return run_voltage(c, R)
    if c['base'] < 1e-8:
        R.bucket('scale:below-1e-8')
    return run_frame(c, R)


def make_frame(stg, c, rn):
    kw = dict(df=c['df'], dt=c['dt'], fch1=c['fch1'], ascending=c['asc'], seed=c['sub'])
    if c['prior'] == 'empty':
        fr = stg.Frame(fchans=c['fchans'], tchans=c['tchans'], **kw)
        return fr, FrameModel(True, [(0.0, 0.0)])
    if c['prior'] == 'zeros-data':
        fr = stg.Frame(data=np.zeros((c['tchans'], c['fchans'])), **kw)
        return fr, FrameModel(True, [(0.0, 0.0)])
    g = np.random.default_rng(c['sub'] + 1)
    data = c['base'] * (1.0 + 0.25 * g.standard_normal((c['tchans'], c['fchans'])))
    data[:, : max(1, c['fchans'] // 50)] *= 4.0
    fr = stg.Frame(data=data.copy(), **kw)
    return fr, FrameModel(False, None)


def snr_probe(fr, c, R, model, rng):
    if model.noiseless():
        R.bucket('no-noise-raises')
        for name in ('get_intensity', 'get_snr'):
            try:
                val = getattr(fr, name)(10.0)
                R.check(False, f'{name}-does-not-raise-without-noise', returned=val)
            except Exception:
                R.check(True, f'{name}-does-not-raise-without-noise')
        return
    std = float(fr.get_noise_stats()[1])
    if not (std > 0 and math.isfinite(std)):
        return
    rt = math.sqrt(c['tchans'])
    for s in (1.0, 25.0, -3.5, float(rng.uniform(0.1, 1e4)), np.array([0.5, 10.0, 1e3])):
        inten = fr.get_intensity(snr=s)
        want = np.asarray(s, dtype=float) * std / rt
        err = np.max(np.abs(np.asarray(inten, dtype=float) - want) / np.abs(want))
        R.check(err <= 1e-12, 'intensity-not-snr-times-std-over-sqrt-tchans', snr=s, got=inten, want=want, tchans=c['tchans'])
        back = fr.get_snr(inten)
        err2 = np.max(np.abs(np.asarray(back, dtype=float) - np.asarray(s, dtype=float)) / np.abs(np.asarray(s, dtype=float)))
        R.check(err2 <= 1e-12, 'snr-not-inverse-of-intensity', snr=s, back=back)
        R.count('snr_roundtrips')
        R.maximum('snr_rel_err_over_1e-12', max(float(err), float(err2)) / 1e-12)


def call_noise(fr, op):
    """Drive the real API for one noise op; returns the returned array."""
    k = op['kind']
    if k == 'chi2':
        if op.get('ignored_args'):
            # "noise_type='chi2' will only use x_mean and ignore other parameters": a caller re-using one argument list for all types
            return fr.add_noise(op['mean'], op['mean'] * 0.37 + 1.0, x_min=op['mean'] * 0.5, noise_type='chi2')
        return fr.add_noise(x_mean=op['mean']) if op['mean'] > 1 else fr.add_noise(op['mean'], noise_type='chi2')
    if k == 'gaussian':
        return fr.add_noise(x_mean=op['mean'], x_std=op['std'], noise_type='gaussian')
    if k == 'normal-alias':
        return fr.add_noise(op['mean'], op['std'], noise_type='normal')
    if k == 'truncated':
        return fr.add_noise(x_mean=op['mean'], x_std=op['std'], x_min=op['min'], noise_type='gaussian')
    if k == 'obs-chi2-default':
        return fr.add_noise_from_obs()
    if k == 'obs-gauss-default':
        return fr.add_noise_from_obs(noise_type='gaussian')
    t = op['tables']
    conv = (lambda x: None if x is None else list(x)) if op['as_list'] else (lambda x: None if x is None else np.array(x))
    if k == 'obs-chi2-supplied':
        return fr.add_noise_from_obs(x_mean_array=conv(t['M']), x_std_array=conv(t['S']), x_min_array=conv(t['m']),
                                     share_index=t['share'], noise_type='chi2')
    return fr.add_noise_from_obs(x_mean_array=conv(t['M']), x_std_array=conv(t['S']), x_min_array=conv(t['m']),
                                 share_index=t['share'], noise_type=('normal' if op['as_list'] else 'gaussian'))


_asset = {}


def default_tables():
    if 'a' not in _asset:
        import os
        _asset['a'] = np.load(os.path.join(common.REPO, 'setigen', 'assets', 'sample_noise_params.npy')).astype(float)
    return _asset['a']


def floor_of(ret):
    """Observed floor: the minimum, and whether it is attained more than once (=> values were clipped to it)."""
    lo = float(np.min(ret))
    return lo, int(np.sum(ret == lo))


def judge_first_noise(R, rn, fr, c, op, ret, kc, cls, stats, N):
    """First noise on an empty frame: parameters are exposed by get_noise_stats. Returns list of acceptable estimates."""
    k = op['kind']
    gm, gs = float(stats[0]), float(stats[1])
    sfx = ':dfdt-' + cls
    if k in ('chi2', 'obs-chi2-supplied', 'obs-chi2-default'):
        if k == 'chi2':
            x_mean = op['mean']
            R.check(gm == x_mean, 'first-noise-estimate-mean-not-requested:chi2', got=gm, want=x_mean)
        else:
            x_mean = gm
            if k == 'obs-chi2-supplied':
                t = op['tables']
                inM = gm in t['M']
                where = 'deviation' if gm in t['S'] else ('floor' if gm in t['m'] else 'none')
                R.check(inM, 'obs-chi2-mean-not-an-entry-of-the-mean-table', got=gm, found_in=where, table=t['M'])
                if not inM:
                    return None
            else:
                a = default_tables()
                sc = c['dt'] / OBS_DT
                hit = np.any(np.isclose(a[:, 0] * sc, gm, rtol=1e-12, atol=0)) or np.any(a[:, 0] == gm)
                R.check(bool(hit), 'obs-chi2-default-mean-not-a-table-entry', got=gm, scale=sc)
                if not hit or not gm > 0:
                    return None
        Ks = [kk for kk in kc if rel_eq(gs, x_mean * math.sqrt(2.0 / kk), 1e-12)]
        R.check(bool(Ks), 'first-noise-estimate-std-not-mean-sqrt-2-over-k' + sfx, got=gs, want=[x_mean * math.sqrt(2.0 / kk) for kk in kc],
                k=kc, implied_k=(2.0 * x_mean ** 2 / gs ** 2 if gs else None))
        res = [(kk, rn.test_chi2(ret, x_mean, kk)) for kk in kc]
        Kd = [kk for kk, r in res if all(ok for _, ok, _ in r)]
        run_tests(R, dict(res)[best_candidate(res, Kd)], 'chi2-noise', sfx)
        R.count('samples_tested', N)
        if Kd and Ks:
            R.check(bool(set(Kd) & set(Ks)), 'first-noise-estimate-std-inconsistent-with-distribution', Kd=Kd, Ks=Ks)
        return [(x_mean, x_mean * math.sqrt(2.0 / kk)) for kk in (Ks or kc)]
    if k in ('gaussian', 'normal-alias', 'truncated'):
        name = 'truncated' if k == 'truncated' else 'gaussian'
        R.check(gm == op['mean'] and gs == op['std'], f'first-noise-estimate-not-requested:{name}', got=[gm, gs],
                want=[op['mean'], op['std']])
        if k == 'truncated':
            lo, cnt = floor_of(ret)
            R.check(lo >= op['min'], 'truncated-value-below-floor', min_value=lo, floor=op['min'],
                    n_below=int(np.sum(ret < op['min'])))
            run_tests(R, rn.test_truncated(ret, op['mean'], op['std'], op['min']), 'truncated-noise')
        else:
            run_tests(R, rn.test_gaussian(ret, op['mean'], op['std']), 'gaussian-noise')
        R.count('samples_tested', N)
        return [(op['mean'], op['std'])]
    # gaussian from tables
    if k == 'obs-gauss-default':
        a = default_tables()
        sc = c['dt'] / OBS_DT
        rows = None
        for s_ in (sc, 1.0):
            cand = np.flatnonzero(np.isclose(a[:, 0] * s_, gm, rtol=1e-12, atol=0) & np.isclose(a[:, 1] * s_, gs, rtol=1e-12, atol=0))
            if cand.size:
                rows, sc = cand, s_
                break
        if rows is None:
            anym = np.any(np.isclose(a[:, 0] * sc, gm, rtol=1e-12, atol=0)) and np.any(np.isclose(a[:, 1] * sc, gs, rtol=1e-12, atol=0))
            R.check(False, 'obs-share-index-not-common:default' if anym else 'obs-gauss-default-params-not-table-entries',
                    got=[gm, gs], scale=sc)
            return None
        R.check(True, 'obs-share-index-not-common:default')
        lo, cnt = floor_of(ret)
        floors = a[rows, 2] * sc
        okf = [f for f in floors if lo >= f - 1e-12 * abs(f) and (cnt < 2 or rel_eq(lo, f, 1e-12))]
        if not okf:
            other = bool(np.any(np.isclose(a[:, 2] * sc, lo, rtol=1e-12, atol=0)))
            R.check(False, 'obs-share-index-floor-from-other-index:default' if (other and cnt >= 2) else
                    'obs-floor-not-the-shared-table-entry:default', observed_floor=lo, attained=cnt, want=floors[:4])
            return [(gm, gs)]
        R.check(True, 'obs-floor-not-the-shared-table-entry:default')
        fl = lo if cnt >= 2 else float(okf[0])
        run_tests(R, rn.test_truncated(ret, gm, gs, fl), 'obs-truncated-noise')
        R.count('samples_tested', N)
        return [(gm, gs)]
    t = op['tables']
    M, S, m = t['M'], t['S'], t['m']
    if t['share']:
        R.bucket('share:on')
        idx = [i for i in range(len(M)) if M[i] == gm and S[i] == gs]
        if not idx:
            entries = (gm in M) and (gs in S)
            R.check(False, 'obs-share-index-not-common' if entries else 'obs-gauss-params-not-table-entries',
                    got=[gm, gs], M=M, S=S, mean_index=(M.index(gm) if gm in M else None), std_index=(S.index(gs) if gs in S else None))
            return None
        R.check(True, 'obs-share-index-not-common')
        i0 = idx[0]
        if m is None:
            run_tests(R, rn.test_gaussian(ret, gm, gs), 'obs-gaussian-noise')
        else:
            lo, cnt = floor_of(ret)
            if lo < m[i0] or (cnt >= 2 and lo != m[i0]):
                other = (lo in m) and cnt >= 2
                R.check(False, 'obs-share-index-floor-from-other-index' if other else 'obs-floor-not-the-shared-table-entry',
                        observed_floor=lo, attained=cnt, want=m[i0], index=i0, floor_index=(m.index(lo) if lo in m else None))
                return [(gm, gs)]
            R.check(True, 'obs-floor-not-the-shared-table-entry')
            run_tests(R, rn.test_truncated(ret, gm, gs, m[i0]), 'obs-truncated-noise')
        R.count('samples_tested', N)
        return [(gm, gs)]
    R.bucket('share:off')
    R.check(gs in S, 'obs-gauss-std-not-an-entry-of-the-deviation-table', got=gs, S=S,
            found_in=('mean' if gs in M else ('floor' if (m and gs in m) else 'none')))
    R.check((gm in M) or (gm in S), 'obs-gauss-mean-not-an-entry-of-mean-or-deviation-table', got=gm, M=M, S=S)
    if not ((gs in S) and ((gm in M) or (gm in S))):
        return None
    if gm not in M:
        R.bucket('max-rule-mean-from-std-table')
    if m is None:
        run_tests(R, rn.test_gaussian(ret, gm, gs), 'obs-gaussian-noise')
    else:
        lo, cnt = floor_of(ret)
        if cnt >= 2:
            R.check(lo in m, 'obs-floor-not-an-entry-of-the-floor-table', observed_floor=lo, attained=cnt, m=m,
                    found_in=('mean' if lo in M else ('deviation' if lo in S else 'none')))
            if lo in m:
                run_tests(R, rn.test_truncated(ret, gm, gs, lo), 'obs-truncated-noise')
        else:
            R.count('floor_unidentified')
            R.check(lo >= min(m), 'obs-floor-not-an-entry-of-the-floor-table', observed_floor=lo, attained=cnt, m=m)
    R.count('samples_tested', N)
    return [(gm, gs)]


def judge_later_noise(R, rn, op, ret, kc, cls, N):
    """Noise added to a frame that already holds noise: parameters are not exposed; test what the request fixes."""
    k = op['kind']
    sfx = ':dfdt-' + cls
    if k == 'chi2':
        res = [(kk, rn.test_chi2(ret, op['mean'], kk)) for kk in kc]
        Kd = [kk for kk, r in res if all(ok for _, ok, _ in r)]
        run_tests(R, dict(res)[best_candidate(res, Kd)], 'chi2-noise', sfx)
    elif k in ('gaussian', 'normal-alias'):
        run_tests(R, rn.test_gaussian(ret, op['mean'], op['std']), 'gaussian-noise')
    elif k == 'truncated':
        lo, cnt = floor_of(ret)
        R.check(lo >= op['min'], 'truncated-value-below-floor', min_value=lo, floor=op['min'], n_below=int(np.sum(ret < op['min'])))
        run_tests(R, rn.test_truncated(ret, op['mean'], op['std'], op['min']), 'truncated-noise')
    elif k == 'obs-chi2-supplied':
        # entries are >= 1.6 apart: the entry used is the one nearest (in ratio) to the sample mean
        M = np.array(op['tables']['M'])
        mh = float(np.mean(ret))
        if not mh > 0:
            R.check(False, 'obs-chi2-later-noise-matches-no-entry-of-the-mean-table', sample_mean=mh)
            return
        x_mean = float(M[np.argmin(np.abs(np.log(M / mh)))])
        res = [(kk, rn.test_chi2(ret, x_mean, kk)) for kk in kc]
        Kd = [kk for kk, r in res if all(ok for _, ok, _ in r)]
        R.bucket('obs-later-identified')
        R.count('stat_tests')
        R.check(bool(Kd), 'obs-chi2-later-noise-matches-no-entry-of-the-mean-table' + sfx, sample_mean=mh, nearest_entry=x_mean,
                failing=[n for n, ok, _ in res[0][1] if not ok])
    else:
        if k in ('obs-gauss-share-min', 'obs-gauss-noshare-min'):
            m = op['tables']['m']
            lo, cnt = floor_of(ret)
            R.check(lo >= min(m) and (cnt < 2 or lo in m), 'obs-floor-not-an-entry-of-the-floor-table', observed_floor=lo, attained=cnt, m=m)
        return
    R.count('samples_tested', N)


def run_frame(c, R):
    stg = common.import_setigen()
    from ..ref import noise as rn
    rng = np.random.default_rng(c['sub'] + 7)
    kc, cls = k_candidates(c['df'], c['dt'])
    R.bucket('dfdt:' + ('rounds-down' if cls == 'rounds-down' else cls))
    R.bucket('prior:' + c['prior'])
    if c['fchans'] * c['tchans'] > 2 ** 20:
        R.bucket('frame:more-than-2^20-pixels')
    R.bucket('orient:asc' if c['asc'] else 'orient:desc')
    fr, model = make_frame(stg, c, rn)
    N = c['fchans'] * c['tchans']
    if model.est is None:
        refs = clip_reference(rn, fr.data)
        model.est = [(o[0], o[1]) for o in refs]
        R.check(any(stats_match(fr.get_noise_stats(), e, 1e-9) for e in model.est), 'initial-estimate-not-sigma-clip-of-data',
                got=[float(x) for x in fr.get_noise_stats()], want=model.est[0])
    else:
        R.check(tuple(float(x) for x in fr.get_noise_stats()) == (0.0, 0.0), 'empty-frame-estimates-not-zero',
                got=[float(x) for x in fr.get_noise_stats()])
    snr_probe(fr, c, R, model, rng)
    tested = False
    n_noise = 0
    prev = None
    sig_scales = {}
    kept = []
    for q, op in enumerate(c['ops']):
        if op['op'] == 'zero':
            R.bucket('zero-data')
            fr.zero_data()
            st = fr.get_noise_stats()
            R.check(float(st[0]) == 0.0 and float(st[1]) == 0.0, 'zero-data-does-not-reset-estimates', got=[float(st[0]), float(st[1])])
            R.check(fr.data.shape == (c['tchans'], c['fchans']) and not np.any(fr.data), 'zero-data-leaves-data')
            model = FrameModel(True, [(0.0, 0.0)])
            n_noise = 0
        elif op['op'] == 'signal':
            st = fr.get_noise_stats()
            scale = float(st[1]) if float(st[1]) > 0 else c['base']
            sig_scales[q] = scale
            f0 = float(fr.fs[int(op['pos'] * (c['fchans'] - 1))])
            fr.add_signal(stg.constant_path(f_start=f0, drift_rate=op['drift'] * fr.df / fr.dt / max(1, c['tchans']) * 8),
                          stg.constant_t_profile(level=op['level'] * scale),
                          stg.gaussian_f_profile(width=op['width'] * fr.df), stg.constant_bp_profile(level=1))
            model.pristine = False
            if prev == 'noise':
                R.bucket('signal-between-noise')
        else:
            R.bucket('kind:' + op['kind'])
            if 'tables' in op:
                R.bucket('tables:list' if op['as_list'] else 'tables:ndarray')
            before = fr.data.copy()
            api = 'add_noise' if op['kind'] in ('chi2', 'gaussian', 'normal-alias', 'truncated') else 'add_noise_from_obs'
            ret = call_noise(fr, op)
            R.count('noise_calls')
            n_noise += 1
            okshape = isinstance(ret, np.ndarray) and ret.shape == (c['tchans'], c['fchans'])
            R.check(okshape, 'returned-noise-wrong-shape:' + api, shape=getattr(ret, 'shape', None))
            if not okshape:
                return
            R.check(np.array_equal(fr.data, before + ret), 'data-delta-differs-from-returned-noise:' + api,
                    nbad=int(np.sum(fr.data != before + ret)))
            R.check(not np.shares_memory(ret, fr.data), 'returned-noise-aliases-frame-data:' + api)
            kept.append((api, ret, ret.copy()))
            stats = fr.get_noise_stats()
            if model.pristine:
                R.bucket('first-noise-on-empty')
                est = judge_first_noise(R, rn, fr, c, op, ret, kc, cls, stats, N)
                tested = tested or N >= 4096
                model.est = est if est else [(float(stats[0]), float(stats[1]))]
            else:
                judge_later_noise(R, rn, op, ret, kc, cls, N)
                tested = tested or (N >= 4096 and op['kind'] in ('chi2', 'gaussian', 'normal-alias', 'truncated', 'obs-chi2-supplied'))
                refs = clip_reference(rn, fr.data)
                R.count('clip_removed_pixels', N - refs[0][2])
                est = [(o[0], o[1]) for o in refs]
                if model.noiseless():
                    # signals but no noise yet: either reading of "empty" is accepted
                    R.bucket('signal-before-first-noise')
                    alt = requested_params(op, kc)
                    hit_alt = any(stats_match(stats, e, 1e-12) for e in alt) if alt else \
                        bool(float(stats[1]) > 0)            # table draw: parameters are whatever was chosen
                    hit_clip = any(stats_match(stats, e, 1e-9) for e in est)
                    R.count('signal_first:requested' if hit_alt and not hit_clip else 'signal_first:reestimate')
                    R.check(hit_alt or hit_clip, 'estimate-after-signal-then-noise-neither-requested-nor-sigma-clip',
                            got=[float(stats[0]), float(stats[1])], clip=est[0], requested=alt)
                    model.est = [(float(stats[0]), float(stats[1]))]
                else:
                    R.bucket('reestimate')
                    ok = any(stats_match(stats, e, 1e-9) for e in est)
                    alt = requested_params(op, kc)
                    overwritten = bool(alt) and any(stats_match(stats, e, 1e-12) for e in alt)
                    R.check(ok, 'estimate-overwritten-by-requested-params-on-non-empty-frame' if (overwritten and not ok) else
                            'estimate-not-sigma-clip-of-data-on-non-empty-frame', got=[float(stats[0]), float(stats[1])],
                            want=est[0], survivors=refs[0][2], pixels=N, nth_noise=n_noise)
                    R.maximum('clip_rel_err_over_1e-9', max(abs(float(stats[0]) - est[0][0]) / max(abs(est[0][0]), est[0][1]),
                                                             abs(float(stats[1]) - est[0][1]) / est[0][1]) / 1e-9)
                    model.est = est
            model.pristine = False
            model.noise_since_reset = True
        prev = op['op']
        snr_probe(fr, c, R, model, rng)
    # every array that was returned is the caller's from then on: a later call (same shape, same frame or not) must not reach it
    for j, (api, arr, cp) in enumerate(kept):
        R.check(np.array_equal(arr, cp), 'returned-noise-array-changed-by-a-later-call:' + api, call=j, calls=len(kept))
    # reading the estimates is an observation, not an operation: the same history on an identical frame WITHOUT any look at the
    # estimates in between ends in the same data and the same estimates
    if len(c['ops']) >= 2:
        R.bucket('blind-replay')
        fb, _ = make_frame(stg, c, rn)
        for q, op in enumerate(c['ops']):
            if op['op'] == 'zero':
                fb.zero_data()
            elif op['op'] == 'signal':
                f0 = float(fb.fs[int(op['pos'] * (c['fchans'] - 1))])
                fb.add_signal(stg.constant_path(f_start=f0, drift_rate=op['drift'] * fb.df / fb.dt / max(1, c['tchans']) * 8),
                              stg.constant_t_profile(level=op['level'] * sig_scales[q]),
                              stg.gaussian_f_profile(width=op['width'] * fb.df), stg.constant_bp_profile(level=1))
            else:
                call_noise(fb, op)
        same_data = np.array_equal(fb.data, fr.data)
        R.check(same_data, 'blind-replay-data-differs', nbad=int((fb.data != fr.data).sum()) if fb.data.shape == fr.data.shape else -1)
        got_b = tuple(float(x) for x in fb.get_noise_stats())
        got_o = tuple(float(x) for x in fr.get_noise_stats())
        R.check(got_b == got_o or not same_data, 'estimates-depend-on-whether-they-were-read-in-between', blind=got_b, observed=got_o,
                history=''.join('Z' if o['op'] == 'zero' else ('S' if o['op'] == 'signal' else 'N') for o in c['ops']))
    R.mark_nontrivial(tested)


def requested_params(op, kc):
    k = op['kind']
    if k == 'chi2':
        return [(op['mean'], op['mean'] * math.sqrt(2.0 / kk)) for kk in kc]
    if k in ('gaussian', 'normal-alias', 'truncated'):
        return [(op['mean'], op['std'])]
    return None


# ---------------------------------------------------------------------------------------------- voltage cases

def series_test(R, v, mean, var, key, **det):
    from scipy import stats as st
    from ..ref import noise as rn
    v = np.asarray(v)
    n = v.size
    if np.iscomplexobj(v) or var <= 0:
        return False
    sd = math.sqrt(var)
    z = float(np.sum(v - mean) / sd / math.sqrt(n))
    R.check(abs(z) <= rn.Z_MAX, key + '-mean-outside-band', z=z, sample_mean=float(np.mean(v)), want=mean, **det)
    ss = float(np.sum((v - mean) ** 2) / var)
    lo, hi = float(st.chi2.ppf(rn.P, n)), float(st.chi2.isf(rn.P, n))
    R.check(lo <= ss <= hi, key + '-std-outside-band', sample_std=math.sqrt(ss / n * var), want=sd, ratio=ss / n,
            band=[lo / n, hi / n], **det)
    R.maximum('voltage_var_dev_over_band', abs(ss / n - 1) / max(hi / n - 1, 1 - lo / n))
    R.count('voltage_series_tested')
    R.count('stat_tests', 2)
    return True


def run_voltage(c, R):
    stg = common.import_setigen()
    from scipy import stats as st
    from ..ref import noise as rn
    V = stg.voltage
    vk, A, P = c['vkind'], c['A'], c['pols']
    kw = dict(sample_rate=c['sr'], fch1=6e9, ascending=c['asc'], seed=c['sub'])
    R.bucket('v:' + ('stream' if vk.startswith('stream') else ('antenna' if vk == 'antenna' else 'array')))
    if P == 2:
        R.bucket('v:two-pols')
    arr = None
    if vk.startswith('stream'):
        top = V.DataStream(**kw)
        streams = [[top]]
        bgs = []
    elif vk == 'antenna':
        top = V.Antenna(num_pols=P, **kw)
        streams = [[top.x] + ([top.y] if P == 2 else [])]
        bgs = []
    else:
        top = arr = V.MultiAntennaArray(num_antennas=A, num_pols=P, delays=list(c['delays']), **kw)
        streams = [[a.x] + ([a.y] if P == 2 else []) for a in arr.antennas]
        bgs = [arr.bg_x] + ([arr.bg_y] if P == 2 else [])
        R.bucket('v:background')
    # model: claimed variance bookkeeping (what noise_std must be) and the true law of delivered samples
    book = [[0.0] * P for _ in range(A)]          # sum of sigma^2 as the stream must report it
    true_var = [[0.0] * P for _ in range(A)]
    true_mean = [[0.0] * P for _ in range(A)]
    bg_book, bg_var, bg_mean = [0.0] * P, [0.0] * P, [0.0] * P
    has_signal = False

    def check_all(after):
        for a in range(A):
            for p in range(P):
                s = streams[a][p]
                R.count('stream_std_checks')
                R.check(rel_eq(s.noise_std, math.sqrt(book[a][p]), 1e-12), 'stream-noise-std-not-quadrature-sum', after=after,
                        got=float(s.noise_std), want=math.sqrt(book[a][p]), antenna=a, pol=p)
                bgw = math.sqrt(bg_book[p]) if bgs else 0.0
                if bgs:
                    R.check(rel_eq(s.bg_noise_std, bgw, 1e-12), 'background-std-not-propagated-to-member-stream', after=after,
                            got=float(s.bg_noise_std), want=bgw, antenna=a, pol=p,
                            other_pol=(math.sqrt(bg_book[1 - p]) if P == 2 else None))
                want = math.sqrt(book[a][p] + (bg_book[p] if bgs else 0.0))
                R.check(rel_eq(s.get_total_noise_std(), want, 1e-12), 'total-noise-std-not-quadrature-sum-with-background' if bgs
                        else 'total-noise-std-not-stream-std', after=after, got=float(s.get_total_noise_std()), want=want,
                        own=math.sqrt(book[a][p]), background=bgw, antenna=a, pol=p)
        for p, b in enumerate(bgs):
            R.check(rel_eq(b.noise_std, math.sqrt(bg_book[p]), 1e-12), 'background-noise-std-not-quadrature-sum', after=after,
                    got=float(b.noise_std), want=math.sqrt(bg_book[p]), pol=p)

    check_all('construction')
    for op in c['ops']:
        kind, a, p, x, y = op
        if kind == 'own':
            streams[a][p].add_noise(v_mean=x, v_std=y)
            book[a][p] += y * y
            true_var[a][p] += y * y
            true_mean[a][p] += x
        elif kind == 'bg':
            bgs[p].add_noise(x, y)
            bg_book[p] += y * y
            bg_var[p] += y * y
            bg_mean[p] += x
        elif kind == 'signal':
            streams[a][p].add_constant_signal(f_start=6e9 + c['sr'] / 8, drift_rate=0.0, level=x)
            has_signal = True
        elif kind in ('update', 'bg-update'):
            R.bucket('v:update')
            s = streams[a][p] if kind == 'update' else bgs[p]
            tv = true_var[a][p] if kind == 'update' else bg_var[p]
            if has_signal or tv <= 0:
                continue
            n = int(x)
            s.update_noise(stats_calc_num_samples=n)
            est = float(s.noise_std)
            lo, hi = float(st.chi2.ppf(rn.P, n - 1)), float(st.chi2.isf(rn.P, n - 1))
            R.check(lo <= n * est * est / tv <= hi, 'update-noise-estimate-outside-band', est=est, want=math.sqrt(tv), n=n)
            R.count('stat_tests')
            if kind == 'update':
                book[a][p] = est * est
            else:
                bg_book[p] = est * est
        check_all(kind)
    # delivered voltages, two consecutive requests (start-of-observation and continuation paths of the array)
    n = c['n']
    done = False
    for rq in range(2):
        out = np.asarray(top.get_samples(n))
        if vk.startswith('stream'):
            out = out.reshape(1, 1, -1)
        R.check(out.shape == (A, P, n), 'delivered-voltage-shape', shape=list(out.shape))
        if out.shape != (A, P, n):
            return
        for a in range(A):
            for p in range(P):
                if has_signal:
                    continue
                var = true_var[a][p] + (bg_var[p] if bgs else 0.0)
                mean = true_mean[a][p] + (bg_mean[p] if bgs else 0.0)
                if var <= 0:
                    R.check(bool(np.all(out[a, p] == mean)), 'delivered-voltage-not-constant-without-noise', antenna=a, pol=p)
                    continue
                done = series_test(R, out[a, p], mean, var, 'delivered-voltage', antenna=a, pol=p, request=rq,
                                   own_std=math.sqrt(true_var[a][p]), background_std=(math.sqrt(bg_var[p]) if bgs else 0.0)) or done
    check_all('get_samples')
    R.mark_nontrivial(done or has_signal)


MANIFEST = {
    'text': 'Runtime monitoring: every add_noise / add_noise_from_obs / zero_data / get_intensity / get_snr call of stratified frame '
            'histories and every add_noise / update_noise / get_total_noise_std / get_samples of voltage streams, antennas and arrays '
            'is followed by post-conditions: returned noise == data delta (bit-exact); distribution of the returned noise tested '
            'against the claimed law (chi-squared with k = 4*round(df*dt), Gaussian, floor-truncated Gaussian) with >= 6-sigma '
            'analytic bands; table draws identified against the supplied tables (common index when shared); estimates == requested '
            'parameters after the first noise on an empty frame, == independent sigma-clip otherwise, reset by zero_data; '
            'intensity/snr formula and inverse; stream/background deviations in quadrature and empirical check of delivered voltages. '
            'Held = no monitor fired on the executions produced; exploration, not proof.',
    'note': '; '.join(ASSUMPTIONS),
    'technique': 'runtime post-condition monitors with analytically derived statistical acceptance bands and an independent '
                 'bookkeeping model',
}
