"""C17 -- derived frames (slice, de-drift, integrate) keep data and axis registration.

Monitor: post-conditions on get_slice / dedrift / integrate / spectrum / timeseries, evaluated
against index-level references written from the property text:

* slice [l, r): data == parent[:, l:r] (exact), fs == parent.fs[l:r];
* dedrift(d): the output band is located in the parent through out.fs[0] (j0), then
  out[i, j] == parent[i, j0 + j + sgn(d) * off_i] with off_i = round(|d| * i * dt / df) (either
  neighbour inside a tie band), row 0 therefore keeps its frequencies; width and rejection
  follow the two admissible readings of "common band"; drift rate from metadata, KeyError when
  absent; a constant-drift signal lands within one channel of its row-0 column;
* integrate: per-column / per-row mean or sum against an extended-precision reduction, the
  normalisation against an independent 3-sigma median clip, Spectrum.fs / TimeSeries.ts
  against the parent's axes;
* every derived frame: orientation, df / dt (along the kept axes), t_start, source_name, no
  shared memory with the parent.
"""
import os
import numpy as np

from .. import common

ID = 'C17'
LEVEL = 'exploration'

OPS = ['slice', 'dedrift', 'signal', 'integrate']
ROUTES = ['kwargs', 'mjd', 'float32', 'fil', 'h5', 'derived', 'consolidated']
SIG_ROUTES = ['kwargs', 'mjd', 'float32']
DCLASSES = ['zero', 'unit', 'half', 'frac', 'multi', 'tiny', 'within-limit', 'limit-below', 'in-between',
            'limit-beyond', 'far-beyond']
SIG_DCLASSES = ['zero', 'unit', 'half', 'frac', 'multi', 'tiny', 'within-limit']
VIAS = ['explicit', 'metadata', 'npfloat', 'explicit-with-decoy-metadata']
DATA_KINDS = ['uniform', 'chi2', 'gauss']

RULE = ('stratified by case index: operation {slice, dedrift, dedrift of a constant-drift signal, integrate} x orientation x '
        'drift sign x parent route {synthetic with t_start, synthetic with mjd, float32 data, loaded from .fil, loaded from '
        '.h5, itself a slice of a wider (synthetic or .fil) frame} x drift class {0, unit, half-unit (exact rounding ties), '
        'fractional, several units, tiny, uniform within the limit, one channel left, between the two readings of the limit, '
        'just beyond, far beyond}; geometries 1..2048 x 1..64 with realistic fch1/df/dt; slice bounds: all pairs for '
        'fchans <= 8, edges + single columns + random otherwise; integrate: every axis spelling x mean/sum x normalise x '
        'array/frame/wrapper on Frame and ndarray input; non-trivial = fchans >= 2 and tchans >= 2 and at least one derived '
        'object compared element-wise; distinct = distinct case descriptor')
ASSUMPTIONS = [
    'slice bounds are 0 <= l < r <= fchans (an empty or reversed slice is not a frame)',
    'time labels: a TimeSeries must carry the parent\'s labels whatever they are (a consolidated cadence has absolute, gapped ones); '
    'the labels of derived FRAMES (slices, de-drifted frames) are compared with the parent\'s only when the parent\'s count from its own '
    'start (i*dt) -- the property states nothing about them otherwise',
    'a derived frame recomputes its axis from its first channel: labels may differ from the parent\'s by <= 8 ulp(fmax) '
    '(each linspace label is within ~2 ulp of its exact grid: <= 1 ulp from the rounded end point spread over the steps, 1/2 for '
    'the step product, 1/2 for the sum; the child stacks its own 2 on an anchor that already carries the parent\'s 2, and is '
    'compared with a parent label carrying 2 more; observed <= 2); a one-channel error is df >= 1e-2 Hz >> 8 ulp(5e10 Hz) = 6e-5 Hz',
    'round(x) with x = |d| i dt / df evaluated in extended precision: when x is within 1e-9 max(1, x) of k + 1/2 either '
    'neighbour is accepted (the property does not fix the tie rule and x itself carries rounding error)',
    '"common band": width fchans - round(|d| (tchans-1) dt/df) (last row) or fchans - round(|d| tchans dt/df) (the frame\'s '
    'drift limit) are both accepted; a rate must be rejected (ValueError) when even the first leaves no channel, must be '
    'accepted when the second leaves at least one, and may do either in between',
    'the output band must lie where every row has data (index range of the reference inside the parent)',
    'signal clause: arg-max of every de-drifted row within 1 channel (+0.01 for background noise 1e-3 of the peak) of the '
    'row-0 centre; span of the arg-max columns <= 1 when no row is within 0.01 channel of a rounding / midway tie',
    'sum / mean: |error| <= (n + 4) eps(dtype of the data) sum|x| (first-order bound of any summation order), reference '
    'reduced in long double',
    'normalisation = (v - mean(kept)) / std(kept), kept = iterative (<= 5 passes) 3-sigma clip about the median; compared '
    'only if no sample is within 64 eps (|median| + 3 std) of a clip threshold (else undecidable, counted) and std(kept) > 0; '
    'tolerance (8 n + 64) eps (|v| + |mean|) / std (mean and std of n samples accumulated at the data precision)',
    'the resolution of a Spectrum / TimeSeries along the integrated-out axis is not demanded (deliberately dt*tchans / '
    'df*fchans), nor the TimeSeries frequency label or the Spectrum time label',
    't_start compared to 1e-4 s (a pass through MJD is allowed), source_name after decoding bytes',
]

SPECIAL_F = [1, 2, 3, 4, 5, 7, 8, 16, 64, 100, 255, 256, 257, 1000, 1024, 2048]
SPECIAL_T = [1, 2, 3, 4, 8, 16, 32, 64]
FS_ULPS = 8
TIE = 1e-9


def required(tier):
    b = {f'op:{o}': 100 for o in OPS}
    b.update({f'route:{r}': 40 for r in ROUTES})
    b.update({f'dclass:{d}': 8 for d in DCLASSES})
    b.update({f'via:{v}': 20 for v in VIAS})
    b.update({f'data:{k}': 40 for k in DATA_KINDS})
    for o in ('slice', 'dedrift', 'spectrum', 'timeseries'):
        b[f'derived:{o}:asc'] = 40
        b[f'derived:{o}:desc'] = 40
    b.update({'drift:pos': 100, 'drift:neg': 100, 'drift:zero': 10,
              'reject:must-raise': 20, 'reject:must-not-raise': 200, 'reject:either': 10,
              'dedrift:one-channel-left': 10, 'dedrift:tie-rows': 20, 'dedrift:asc:neg': 40, 'dedrift:asc:pos': 40,
              'dedrift:desc:neg': 40, 'dedrift:desc:pos': 40, 'dedrift:keyerror-checked': 100,
              'slice:all-pairs': 20, 'slice:full': 50, 'slice:single-column': 100, 'slice:left-edge': 50, 'slice:right-edge': 50,
              'slice:interior': 100, 'slice:method': 50, 'slice:function': 50,
              'signal:own': 40, 'signal:setigen': 40, 'signal:span-checked': 40, 'signal:pos': 30, 'signal:neg': 30,
              'integrate:axis-t': 200, 'integrate:axis-f': 200, 'integrate:mean': 200, 'integrate:sum': 200,
              'integrate:normalize': 200, 'integrate:clip-active': 50, 'integrate:as_frame': 200,
              'integrate:wrapper-spectrum': 100, 'integrate:wrapper-timeseries': 100, 'integrate:ndarray-input': 100,
              'integrate:n>=2:axis-t': 100, 'integrate:n>=2:axis-f': 100,
              'parent:file-loaded': 80, 'parent:derived': 40})
    return {'buckets': b,
            'counters': {'pixels_compared': 1_000_000, 'rows_compared': 5000, 'axis_labels_compared': 100_000,
                         'metadata_compared': 1000},
            'checks': 20000, 'nontrivial': 300}


# ------------------------------------------------------------------------------------ generator

def _geometry(rng, op, route):
    F = int(common.pick(rng, SPECIAL_F)) if rng.random() < 0.45 else int(rng.integers(1, 2049))
    T = int(common.pick(rng, SPECIAL_T)) if rng.random() < 0.45 else int(rng.integers(1, 65))
    if op == 'slice' and rng.random() < 0.3:
        F = int(rng.integers(1, 9))
    if op == 'signal':
        T = max(T, 2)
        F = max(F, 2 * T + 24)
    if route == 'h5':          # blimpy cannot write / read smaller HDF5 products
        F, T = max(F, 4), max(T, 4)
    if rng.random() < 0.6:
        df = float(common.pick(rng, common.UGLY_DF))
        dt = float(common.pick(rng, common.UGLY_DT))
    else:
        df = float(10 ** rng.uniform(-2, 5))
        dt = float(10 ** rng.uniform(-3, 2))
    fch1 = float(common.pick(rng, common.UGLY_FCH1)) if rng.random() < 0.6 else float(10 ** rng.uniform(7, 10.69))
    if fch1 - (F + 64) * df <= 1e6:
        fch1 = float((F + 64) * df + 1e7)
    return F, T, df, dt, fch1


def _drift(rng, dclass, F, T, df, dt, signal=False):
    """|drift| in Hz/s for a class; x_T = |d| T dt / df is the offset 'at the frame's limit'."""
    unit = df / dt
    cap = (F - 8.0) / T if signal else None        # signal strata keep >= 8 channels
    if dclass == 'zero':
        return 0.0
    if dclass == 'unit':
        return unit
    if dclass == 'half':
        return 0.5 * unit
    if dclass == 'frac':
        return float(common.pick(rng, [1 / 3, 0.25, 0.75, float(rng.uniform(0.05, 0.95))])) * unit
    if dclass == 'multi':
        m = float(common.pick(rng, [2.0, 3.0, 1.5, float(rng.uniform(1.5, 8.0))]))
        if signal:
            m = min(m, cap)
        return m * unit
    if dclass == 'tiny':
        return 1e-6 * unit
    if dclass == 'within-limit':
        top = (F - 8.0) if signal else (F - 0.75)
        return float(rng.uniform(0, 1)) * max(top, 0.0) / T * unit
    if dclass == 'limit-below':                    # x_T = F - 0.75: exactly one channel left at the frame's limit
        return (F - 0.75) / T * unit
    if dclass == 'in-between':                     # x_T = F + 0.25: no channel by the limit, some by the last row
        return (F + 0.25) / T * unit
    if dclass == 'limit-beyond':                   # x_(T-1) = F + 0.25
        return (F + 0.25) / max(T - 1, 1) * unit
    if dclass == 'far-beyond':
        return float(rng.uniform(2.0, 12.0)) * (F + 1) / max(T - 1, 1) * unit
    raise ValueError(dclass)


def _bounds(rng, F):
    if F <= 8:
        return [[l, r] for l in range(F) for r in range(l + 1, F + 1)], True
    out = [[0, F], [0, 1], [F - 1, F], [0, int(rng.integers(1, F))], [int(rng.integers(1, F)), F]]
    for _ in range(5):
        l = int(rng.integers(0, F))
        r = int(rng.integers(l + 1, F + 1))
        out.append([l, r])
    l = int(rng.integers(1, F - 1))
    out.append([l, l + 1])
    l = int(rng.integers(1, F - 1))
    out.append([l, int(rng.integers(l + 1, F))])
    # negative bounds count from the end, exactly as for a list (non-empty results only)
    k = int(rng.integers(2, F))
    out.append([-k, F])
    out.append([-k, -1])
    out.append([int(rng.integers(0, F - 2)), -1])
    out.append([-k, int(rng.integers(F - k + 1, F + 1))])
    return out, False


def gen_cases(seed, tier):
    rng = np.random.default_rng([seed, 17])
    n = 2112 if tier == 'quick' else 126720
    cases = []
    for i in range(n):
        op = common.stratum(i, 171, OPS)
        asc = bool(common.stratum(i, 172, 2))
        neg = bool(common.stratum(i, 173, 2))
        k = i
        if op == 'signal':
            route = common.stratum(k, 174, SIG_ROUTES)
            dclass = common.stratum(k, 175, SIG_DCLASSES)
        else:
            route = common.stratum(k, 174, ROUTES)
            dclass = common.stratum(k, 175, DCLASSES)
        F, T, df, dt, fch1 = _geometry(rng, op, route)
        c = dict(op=op, asc=asc, route=route, fchans=F, tchans=T, df=df, dt=dt, fch1=fch1,
                 data_kind=common.stratum(k, 176, DATA_KINDS), sub=int(rng.integers(2 ** 31)),
                 t0=0.0 if common.stratum(k, 183, 10) == 0 else float(np.round(rng.uniform(1.0e9, 1.6e9), 3)),
                 mjd=float(np.round(rng.uniform(55000, 60000), 6)),
                 name='' if common.stratum(k, 184, 8) == 0 else 'SRC%05d' % int(rng.integers(100000)))       # blank names and a start at t = 0 are values too
        if route == 'derived':
            c['pad'] = [int(rng.integers(0, 33)), int(rng.integers(0, 33))]
            c['base_file'] = bool(common.stratum(k, 177, 2))
        if op == 'slice':
            c['bounds'], c['all_pairs'] = _bounds(rng, F)
            c['method'] = bool(common.stratum(k, 178, 2))
        elif op in ('dedrift', 'signal'):
            sgn = -1.0 if neg else 1.0
            c['dclass'] = dclass
            c['drift'] = sgn * _drift(rng, dclass, F, T, df, dt, signal=(op == 'signal'))
            if op == 'dedrift':
                c['via'] = common.stratum(k, 179, VIAS)
                c['drift2'] = -sgn * _drift(rng, 'within-limit', F, T, df, dt)
            else:
                c['inject'] = common.stratum(k, 180, ['own', 'setigen'])
                c['frac'] = common.stratum(k, 181, [0.0, 0.5, None])
        else:
            c['bright'] = bool(common.stratum(k, 182, 2))
        cases.append(c)
    return cases


# ------------------------------------------------------------------------------------ parents

def _make_data(rng, kind, T, F, bright=False):
    if kind == 'uniform':
        d = rng.random((T, F)) * 100.0 + 1.0
    elif kind == 'chi2':
        d = rng.chisquare(4, size=(T, F)) * 25.0
    else:
        d = rng.normal(0.0, 3.0, size=(T, F))
    if bright:
        if F >= 8:
            d[:, int(rng.integers(F))] += 400.0
            d[:, int(rng.integers(F))] += 150.0
        if T >= 8:
            d[int(rng.integers(T)), :] += 300.0
    return d


def _via_file(stg, fr, ext):
    p = os.path.join(os.environ['VERIF_TMP'], 'c17_%d_%d.%s' % (os.getpid(), id(fr), ext))
    with common.quiet():
        (fr.save_fil if ext == 'fil' else fr.save_h5)(p)
        g = stg.Frame(waterfall=p)
    try:
        os.unlink(p)
    except OSError:
        pass
    return g


def build_parent(stg, c, R, data=None):
    """A frame with known start time / source name, obtained through the case's route."""
    rng = np.random.default_rng(c['sub'])
    T, F = c['tchans'], c['fchans']
    route = c['route']
    pad = c.get('pad', [0, 0]) if route == 'derived' else [0, 0]
    if data is None:
        data = _make_data(rng, c['data_kind'], T, F + pad[0] + pad[1], bright=c.get('bright', False))
    if route == 'float32':
        data = data.astype(np.float32)
    kw = dict(df=c['df'], dt=c['dt'], fch1=c['fch1'], ascending=c['asc'], seed=c['sub'], source_name=c['name'])
    if route == 'mjd':
        fr = stg.Frame(data=data, mjd=c['mjd'], **kw)
    else:
        fr = stg.Frame(data=data, t_start=c['t0'], **kw)
    if route == 'consolidated':
        fr = _consolidated(stg, c, R, data, kw)
    elif route in ('fil', 'h5'):
        fr = _via_file(stg, fr, route)
        R.bucket('parent:file-loaded')
    elif route == 'derived':
        if c.get('base_file'):
            fr = _via_file(stg, fr, 'fil')
        with common.quiet():
            fr = fr.get_slice(pad[0], pad[0] + F)
        # the parent of this case is the slice; give it a start time / name of its own so that the clause under test
        # (child vs immediate parent) does not depend on whether the first derivation kept them
        fr.t_start = c['t0'] + 1234.5
        fr.source_name = c['name'] + '_S'
        R.bucket('parent:derived')
    if route != 'derived' and (c['name'] == '' or c['t0'] == 0.0):
        # a blank source name / a start at t = 0 (whatever route produced the parent: as attributes they are the parent's)
        if c['name'] == '':
            fr.source_name = ''
            R.bucket('parent:blank-source-name')
        if c['t0'] == 0.0 and route != 'mjd':
            fr.t_start = 0.0
            R.bucket('parent:t_start-zero')
    R.bucket('route:' + route)
    R.bucket('data:' + c['data_kind'])
    return fr


def _consolidated(stg, c, R, data, kw):
    """The parent is what Cadence.consolidate() returns for the same pixels observed as one or two frames: an ordinary
    frame (same resolutions, rows in time order) whose time labels are absolute rather than counted from its start."""
    T = data.shape[0]
    T1 = T // 2 if T >= 2 else T
    parts = [stg.Frame(data=np.array(data[:T1], copy=True), t_start=c['t0'], **kw)]
    if T1 < T:
        parts.append(stg.Frame(data=np.array(data[T1:], copy=True), t_start=c['t0'] + T1 * c['dt'] + 30.0, **kw))
    with common.quiet():
        cad = stg.Cadence(parts, t_slew=30.0, t_overwrite=bool(c['sub'] % 2))
        fr = cad.consolidate()
    fr.t_start = c['t0'] + 77.25
    fr.source_name = c['name'] + '_C'
    R.bucket('parent:consolidated')
    return fr


class Snap:
    """OLD-state of the parent: everything the oracles use is copied before the call under test."""

    def __init__(self, fr):
        self.data = np.array(fr.data, copy=True)
        self.fs = np.array(fr.fs, dtype=float, copy=True)
        self.ts = np.array(fr.ts, dtype=float, copy=True)
        self.T, self.F = self.data.shape
        self.asc = bool(fr.ascending)
        self.df = float(fr.df)
        self.dt = float(fr.dt)
        self.t_start = float(fr.t_start)
        self.source_name = _name(fr.source_name)
        self.tolf = FS_ULPS * float(np.spacing(max(abs(self.fs[0]), abs(self.fs[-1]))))
        self.o = 'asc' if self.asc else 'desc'
        self.meta = {k: repr(v_) for k, v_ in fr.metadata.items()} if isinstance(getattr(fr, 'metadata', None), dict) else None
        # a frame's time labels normally count from its own start; where they do not (consolidated cadences carry absolute
        # times) the property says nothing about the labels of derived FRAMES - only time series must carry the parent's axis
        self.plain_ts = bool(np.all(np.abs(self.ts - np.arange(self.T) * self.dt) <= 4 * common.ulp(max(self.T * self.dt, 1e-300))))


def _name(s):
    return s.decode() if isinstance(s, bytes) else str(s)


class Meta:
    """Start time / source name mismatches of one case, reported once per operation (so that they cannot crowd out
    the index clauses in the per-case violation list)."""

    def __init__(self):
        self.bad = {}
        self.n = {}

    def look(self, R, P, child, op):
        R.count('metadata_compared')
        self.n[op] = self.n.get(op, 0) + 1
        wrong = {}
        ts = getattr(child, 't_start', None)
        if not (isinstance(ts, (int, float, np.floating)) and abs(float(ts) - P.t_start) <= 1e-4):
            wrong['t_start'] = [ts, P.t_start]
        sn = getattr(child, 'source_name', None)
        if sn is None or _name(sn) != P.source_name:
            wrong['source_name'] = [repr(sn), P.source_name]
        if wrong and op not in self.bad:
            self.bad[op] = wrong

    def report(self, R):
        for op in sorted(self.n):
            R.check(op not in self.bad, 'derived-frame-metadata:' + op, differs=self.bad.get(op), calls=self.n[op])


def check_kept(R, P, child, op, parent_fr, df=True, dt=True):
    """Orientation, resolutions along the kept axes, copy-not-view."""
    R.bucket(f'derived:{op}:{P.o}')
    R.check(bool(child.ascending) == P.asc, f'orientation-changed:{op}', got=bool(child.ascending), parent=P.asc)
    if df:
        R.check(abs(float(child.df) - P.df) <= 2 * common.ulp(P.df), f'df-changed:{op}', got=float(child.df), parent=P.df)
    if dt:
        R.check(abs(float(child.dt) - P.dt) <= 2 * common.ulp(P.dt), f'dt-changed:{op}', got=float(child.dt), parent=P.dt)
    R.check(not np.shares_memory(child.data, parent_fr.data), f'view-of-parent-data:{op}')
    if op != 'dedrift' and P.meta is not None and isinstance(getattr(parent_fr, 'metadata', None), dict):
        now = {k: repr(v_) for k, v_ in parent_fr.metadata.items()}
        R.check(now == P.meta, f'operation-changed-parent-metadata:{op}', keys=sorted(k for k in set(now) | set(P.meta) if now.get(k) != P.meta.get(k))[:5])
    # annotating the derived frame (a note, another trial drift rate, ...) is the caller's business with THAT frame
    if isinstance(getattr(child, 'metadata', None), dict) and isinstance(getattr(parent_fr, 'metadata', None), dict):
        before = {k: repr(v) for k, v in parent_fr.metadata.items()}
        child.add_metadata({'verif_note': op})
        after = {k: repr(v) for k, v in parent_fr.metadata.items()}
        R.check(before == after, f'annotating-derived-frame-changed-parent-metadata:{op}',
                keys=sorted(set(after) ^ set(before))[:5])
        R.count('metadata_independence_checks')


def check_axis(R, got, want, tol, key, what, **detail):
    got = np.asarray(got, dtype=float)
    if not R.check(got.shape == want.shape, key + ':length', got=list(got.shape), want=list(want.shape), **detail):
        return False
    if got.size == 0:
        return True
    err = float(np.max(np.abs(got - want)))
    R.count('axis_labels_compared', int(got.size))
    R.maximum(what + '_err_over_tol', err / tol if tol > 0 else (0.0 if err == 0 else np.inf))
    return R.check(err <= tol, key, err=err, tol=tol, first_got=float(got[0]), first_want=float(want[0]), **detail)


# ------------------------------------------------------------------------------------ slice

def run_slice(stg, c, R, fr, meta):
    P = Snap(fr)
    F = P.F
    if c['all_pairs']:
        R.bucket('slice:all-pairs')
    R.bucket('slice:method' if c['method'] else 'slice:function')
    for l, r in c['bounds']:
        with common.quiet():
            s = fr.get_slice(l, r) if c['method'] else stg.get_slice(fr, l, r)
        if l < 0 or r < 0:
            R.bucket('slice:negative-bound')
        elif l == 0 and r == F:
            R.bucket('slice:full')
        elif l == 0:
            R.bucket('slice:left-edge')
        elif r == F:
            R.bucket('slice:right-edge')
        else:
            R.bucket('slice:interior')
        if r == l + 1:
            R.bucket('slice:single-column')
        want = P.data[:, l:r]
        got = np.asarray(s.data)
        if R.check(got.shape == want.shape, f'slice:shape:{P.o}', got=list(got.shape), want=list(want.shape), l=l, r=r):
            R.count('pixels_compared', int(want.size))
            R.check(np.array_equal(got, want), f'slice:data:{P.o}', l=l, r=r, F=F,
                    nbad=int(np.sum(got != want)))
            R.check(int(s.fchans) == want.shape[1] and int(s.tchans) == P.T, f'slice:fchans-tchans:{P.o}', l=l, r=r)
        check_axis(R, s.fs, P.fs[l:r], P.tolf, f'slice:fs:{P.o}', 'slice_fs', l=l, r=r, F=F)
        if P.plain_ts:
            check_axis(R, s.ts, P.ts, 4 * common.ulp(max(P.T * P.dt, 1e-300)), f'slice:ts:{P.o}', 'slice_ts', l=l, r=r)
        check_kept(R, P, s, 'slice', fr)
        meta.look(R, P, s, 'slice')
    R.mark_nontrivial(F >= 2 and P.T >= 2)


# ------------------------------------------------------------------------------------ dedrift

def offsets(absd, dt, df, n):
    """Admissible roundings (lo, hi) of x_i = |d| i dt / df, i = 0..n, and the tie mask."""
    i = np.arange(n + 1, dtype=np.longdouble)
    x = (np.longdouble(absd) * np.longdouble(dt) / np.longdouble(df)) * i
    fl = np.floor(x)
    tie = np.abs(x - fl - np.longdouble(0.5)) <= TIE * np.maximum(1.0, x)
    near = np.where(x - fl > 0.5, fl + 1, fl)
    lo = np.where(tie, fl, near).astype(np.int64)
    hi = np.where(tie, fl + 1, near).astype(np.int64)
    return lo, hi, np.asarray(tie), np.asarray(x, dtype=float)


def run_dedrift_once(stg, R, fr, d, meta, via='explicit', tag=''):
    """One monitored dedrift call. Returns (child or None, j0, P, lo, hi, tie)."""
    P = Snap(fr)
    T, F = P.T, P.F
    neg = d < 0
    sg = 'neg' if neg else 'pos'
    sfx = f':{P.o}:{sg}'
    if d == 0:
        R.bucket('drift:zero')
    else:
        R.bucket('drift:neg' if neg else 'drift:pos')
        R.bucket(f'dedrift:{P.o}:{sg}')
    lo, hi, tie, x = offsets(abs(d), P.dt, P.df, T)
    must_raise = lo[T - 1] >= F             # even the last row's own offset leaves no channel
    must_not = hi[T] <= F - 1               # at least one channel left at the frame's limit
    R.bucket('reject:must-raise' if must_raise else ('reject:must-not-raise' if must_not else 'reject:either'))
    if via == 'metadata':
        fr.add_metadata({'drift_rate': d})
        args = ()
    elif via == 'npfloat':
        args = (np.float64(d),)
    else:
        args = (d,)
    child, raised = None, None
    if d != 0 and T >= 2 and (T + F) % 2 == 0:
        # history: a frame with the same number of rows but another time resolution was de-drifted at exactly this rate before
        R.bucket('dedrift:after-decoy-with-other-resolution')
        try:
            decoy = stg.Frame(fchans=max(F, 8), tchans=T, df=P.df, dt=P.dt * 2.0, fch1=6e9, ascending=not P.asc, seed=1)
            decoy2 = stg.Frame(fchans=max(F, 8), tchans=T, df=P.df * 3.0, dt=P.dt, fch1=6e9, ascending=P.asc, seed=1)
            for dd in (decoy, decoy2):
                try:
                    stg.dedrift(dd, abs(d))
                    stg.dedrift(dd, -abs(d))
                except ValueError:
                    pass
        except Exception:
            raise
    meta_before = {k: repr(v_) for k, v_ in fr.metadata.items()} if isinstance(getattr(fr, 'metadata', None), dict) else None
    try:
        try:
            with common.quiet():
                child = stg.dedrift(fr, *args)
        finally:
            # de-drifting reads the parent: its bookkeeping (the recorded drift rate above all) is as it was, accepted or rejected
            if meta_before is not None:
                meta_after = {k: repr(v_) for k, v_ in fr.metadata.items()}
                R.check(meta_after == meta_before, 'dedrift:changed-parent-metadata:' + via, keys=sorted(
                    k for k in set(meta_after) | set(meta_before) if meta_after.get(k) != meta_before.get(k))[:5], d=d)
    except ValueError as e:
        raised = e
    except Exception as e:
        if must_not:
            raise
        R.violate('dedrift:rejection-is-not-a-ValueError' + sfx, exc=type(e).__name__, msg=str(e)[:200], d=d, T=T, F=F, via=via)
        return None, None, P, lo, hi, tie
    if raised is not None:
        R.check(not must_not, 'dedrift:rejects-admissible-rate' + sfx, d=d, T=T, F=F, x_limit=float(x[T]), msg=str(raised)[:200],
                via=via)
        return None, None, P, lo, hi, tie
    if not R.check(not must_raise, 'dedrift:accepts-rate-leaving-no-channel' + sfx, d=d, T=T, F=F, x_last=float(x[T - 1]), via=via):
        return None, None, P, lo, hi, tie
    got = np.asarray(child.data)
    if not R.check(got.ndim == 2 and got.shape[0] == T and got.shape[1] >= 1, 'dedrift:shape' + sfx, got=list(got.shape), T=T, F=F):
        return None, None, P, lo, hi, tie
    W = got.shape[1]
    widths = sorted({int(F - v) for v in (lo[T - 1], hi[T - 1], lo[T], hi[T]) if F - v >= 1})
    R.check(W in widths, 'dedrift:width' + sfx, got=W, admissible=widths, d=d, T=T, F=F, via=via)
    R.check(int(child.fchans) == W and int(child.tchans) == T, 'dedrift:fchans-tchans' + sfx)
    if W == 1:
        R.bucket('dedrift:one-channel-left')
    # locate the output band in the parent through the child's first frequency label
    cfs = np.asarray(child.fs, dtype=float)
    if not R.check(cfs.shape == (W,), 'dedrift:fs:length' + sfx, got=list(cfs.shape), W=W):
        return child, None, P, lo, hi, tie
    j0 = int(np.argmin(np.abs(P.fs - cfs[0])))
    on_grid = abs(P.fs[j0] - cfs[0]) <= P.tolf and j0 + W <= F
    if not R.check(on_grid, 'dedrift:band-not-on-parent-grid' + sfx, fs0=float(cfs[0]), nearest=float(P.fs[j0]), j0=j0, W=W, F=F):
        return child, None, P, lo, hi, tie
    check_axis(R, cfs, P.fs[j0:j0 + W], P.tolf, 'dedrift:fs' + sfx, 'dedrift_fs', j0=j0, W=W, d=d)
    if P.plain_ts:
        check_axis(R, child.ts, P.ts, 4 * common.ulp(max(T * P.dt, 1e-300)), 'dedrift:ts' + sfx, 'dedrift_ts')
    # row i is the parent's row i moved by off_i channels towards the start of the drift
    sgn = -1 if neg else 1
    cols = np.arange(W)[None, :]
    rows = np.arange(T)[:, None]
    ok_row = np.zeros(T, dtype=bool)
    in_band = np.zeros(T, dtype=bool)
    for off in (lo[:T], hi[:T]):
        first = j0 + sgn * off                       # parent column of output column 0
        valid = (first >= 0) & (first + W <= F)
        in_band |= valid
        idx = np.clip(first[:, None] + cols, 0, F - 1)
        eq = np.all(P.data[rows, idx] == got, axis=1) & valid
        ok_row |= eq
    R.count('rows_compared', T)
    R.count('pixels_compared', T * W)
    if tie[:T].any():
        R.bucket('dedrift:tie-rows')
        R.count('tie_rows', int(tie[:T].sum()))
    R.check(bool(in_band.all()), 'dedrift:band-outside-common-band' + sfx, j0=j0, W=W, F=F, d=d,
            first_bad_row=int(np.argmin(in_band)))
    R.check(bool(ok_row[0]), 'dedrift:row0-moved' + sfx, j0=j0, W=W, d=d, via=via)
    if T > 1:
        bad = ~ok_row[1:] & in_band[1:]
        i_bad = int(np.argmax(bad)) + 1 if bad.any() else None
        detail = {}
        if i_bad is not None:        # how far is that row actually displaced (for the report only)
            detail = dict(row=i_bad, x=float(x[i_bad]), want_off=[int(lo[i_bad]), int(hi[i_bad])],
                          seen_off=_seen_offset(P.data[i_bad], got[i_bad], j0, sgn))
        R.check(not bad.any(), 'dedrift:row-offset' + sfx, nbad=int(bad.sum()), d=d, T=T, F=F, W=W, j0=j0, via=via, **detail)
    check_kept(R, P, child, 'dedrift', fr)
    meta.look(R, P, child, 'dedrift')
    R.mark_nontrivial(F >= 2 and T >= 2)
    return child, j0, P, lo, hi, tie


def _seen_offset(prow, crow, j0, sgn):
    W, F = crow.shape[0], prow.shape[0]
    for first in range(0, F - W + 1):
        if np.array_equal(prow[first:first + W], crow):
            return (first - j0) * sgn
    return None


def run_dedrift(stg, c, R, fr, meta):
    R.bucket('dclass:' + c['dclass'])
    R.bucket('via:' + c['via'])
    # no rate given and none recorded
    if 'drift_rate' not in fr.metadata:
        R.bucket('dedrift:keyerror-checked')
        try:
            with common.quiet():
                stg.dedrift(fr)
            R.violate('dedrift:no-KeyError-without-a-rate')
        except KeyError:
            R.check(True, 'dedrift:no-KeyError-without-a-rate')
        except Exception as e:
            R.violate('dedrift:no-KeyError-without-a-rate', exc=type(e).__name__, msg=str(e)[:200])
    d = float(c['drift'])
    via = c['via']
    if via == 'explicit-with-decoy-metadata':
        fr.add_metadata({'drift_rate': -1.7 * d + 0.37 * fr.df / fr.dt})
    run_dedrift_once(stg, R, fr, d, meta, via=via)
    # a second rate of the other sign, always explicit
    run_dedrift_once(stg, R, fr, float(c['drift2']), meta, via='explicit')


def run_signal(stg, c, R, meta):
    """De-drift of a frame holding one constant-drift signal, at the signal's own rate."""
    rng = np.random.default_rng([c['sub'], 1])
    T, F = c['tchans'], c['fchans']
    d = float(c['drift'])
    R.bucket('dclass:' + c['dclass'])
    R.bucket('signal:' + c['inject'])
    R.bucket('signal:neg' if d < 0 else 'signal:pos')
    lo, hi, tie, x = offsets(abs(d), c['dt'], c['df'], T)
    reach = int(hi[T]) + 1
    if d >= 0:
        a, b = 3, F - reach - 4
    else:
        a, b = reach + 3, F - 4
    n0 = int(rng.integers(a, b + 1))
    frac = c['frac'] if c['frac'] is not None else float(rng.uniform(0.02, 0.98))
    c0 = n0 + frac
    noise = rng.random((T, F))                      # background 1e-3 of the peak, distinct everywhere
    sgn = -1.0 if d < 0 else 1.0
    if c['inject'] == 'own':
        centre = c0 + sgn * x[:T]
        sig = 1000.0 * np.exp(-0.5 * ((np.arange(F)[None, :] - centre[:, None]) / 0.85) ** 2)
        fr = build_parent(stg, c, R, data=noise + sig)
    else:
        fr = build_parent(stg, c, R, data=noise)
        f_start = float(fr.fs[0]) + c0 * float(fr.df)
        fr.add_constant_signal(f_start=f_start, drift_rate=d, level=1000.0, width=2.0 * float(fr.df), f_profile_type='gaussian')
        c0 = (f_start - float(fr.fs[0])) / float(fr.df)
    child, j0, P, lo, hi, tie = run_dedrift_once(stg, R, fr, d, meta)
    if child is None or j0 is None:
        R.violate('signal:dedrift-at-own-rate-failed', d=d, T=T, F=F)
        return
    got = np.asarray(child.data, dtype=float)
    am = np.argmax(got, axis=1) + j0                # arg-max in parent columns
    dev = np.abs(am - c0)
    R.maximum('signal_dev_channels', float(dev.max()))
    sfx = f':{P.o}:{"neg" if d < 0 else "pos"}'
    R.check(bool(np.all(dev <= 1.01)), 'signal:row-more-than-one-channel-from-row0-column' + sfx, c0=c0, j0=j0, d=d,
            worst_row=int(np.argmax(dev)), argmax=int(am[int(np.argmax(dev))]), T=T, F=F, inject=c['inject'])
    # residual centre of row i after the admissible shift; ambiguous when a rounding or a midway tie is near
    res = c0 + sgn * (x[:T] - lo[:T])               # lo == hi off ties
    mid = np.abs(res - np.floor(res) - 0.5) <= 0.01
    if not (tie[:T].any() or mid.any()):
        R.bucket('signal:span-checked')
        R.check(int(am.max() - am.min()) <= 1, 'signal:spans-more-than-two-columns' + sfx, span=int(am.max() - am.min()), c0=c0, d=d,
                T=T, F=F, inject=c['inject'])
    R.mark_nontrivial(True)


# ------------------------------------------------------------------------------------ integrate

def ref_reduce(data, axis, mode):
    """Per-column (axis 0) / per-row (axis 1) sum or mean in long double, with a first-order error bound."""
    n = data.shape[axis]
    wide = data.astype(np.longdouble)
    s = wide.sum(axis=axis)
    sabs = np.abs(wide).sum(axis=axis)
    eps = float(np.finfo(data.dtype).eps) if data.dtype.kind == 'f' else float(np.finfo(float).eps)
    bound = (n + 4) * eps * sabs
    if mode == 'mean':
        s, bound = s / n, bound / n
    return np.asarray(s, dtype=float), np.asarray(bound, dtype=float) + 1e-300


def ref_clip(v, eps):
    """Iterative 3-sigma clip about the median (<= 5 passes). Returns (kept mask, decidable)."""
    v = np.asarray(v, dtype=float)
    keep = np.ones(v.shape, dtype=bool)
    decidable = True
    for _ in range(5):
        kept = v[keep]
        med = float(np.median(kept))
        sd = float(np.sqrt(np.mean((kept - kept.mean()) ** 2)))
        thr = 3.0 * sd
        dev = np.abs(v - med)
        if np.any(np.abs(dev[keep] - thr) <= 64 * eps * (abs(med) + thr)):
            decidable = False
        new = keep & (dev <= thr)
        if new.sum() == keep.sum():
            break
        keep = new
    return keep, decidable


def check_values(R, got, ref, bound, key, what, **detail):
    got = np.asarray(got)
    if not R.check(got.shape == ref.shape, key + ':length', got=list(got.shape), want=list(ref.shape), **detail):
        return False
    err = np.abs(got.astype(float) - ref)
    R.count('pixels_compared', int(got.size))
    R.maximum(what + '_err_over_bound', float(np.max(err / bound)))
    return R.check(bool(np.all(err <= bound)), key, nbad=int(np.sum(err > bound)), worst=float(np.max(err / bound)),
                   got0=float(got.ravel()[0]), want0=float(ref.ravel()[0]), **detail)


def check_normalised(R, got, raw, key, **detail):
    """got vs (raw - mean(kept)) / std(kept) with the independent clip; raw = the observed un-normalised values."""
    raw = np.asarray(raw)
    n = raw.size
    eps = float(np.finfo(raw.dtype).eps)
    keep, decidable = ref_clip(raw, eps)
    kept = raw.astype(float)[keep]
    m = float(kept.mean())
    s = float(np.sqrt(np.mean((kept - m) ** 2)))
    if n < 4 or not decidable or not (s > 1e3 * eps * (abs(m) + 1e-300)):
        R.count('normalise_undecidable')
        return
    if keep.sum() < n:
        R.bucket('integrate:clip-active')
    want = (raw.astype(float) - m) / s
    tol = (8 * n + 64) * eps * (np.abs(raw.astype(float)) + abs(m)) / s + 1e-300
    got = np.asarray(got)
    if not R.check(got.shape == want.shape, key + ':length', got=list(got.shape), want=list(want.shape), **detail):
        return
    err = np.abs(got.astype(float) - want)
    R.count('pixels_compared', int(n))
    R.maximum('normalise_err_over_tol', float(np.max(err / tol)))
    R.check(bool(np.all(err <= tol)), key, nbad=int(np.sum(err > tol)), worst=float(np.max(err / tol)), clipped=int(n - keep.sum()),
            **detail)


def run_integrate(stg, c, R, fr, meta):
    P = Snap(fr)
    T, F = P.T, P.F
    plain = np.array(P.data, copy=True)
    held = []            # results handed out earlier are the caller's: looked at again after all the later integrations
    for spelling in ('t', 0, 'f', 1):
        ax = 0 if spelling in ('t', 0) else 1
        a = 't' if ax == 0 else 'f'
        n_in, n_out = (T, F) if ax == 0 else (F, T)
        R.bucket('integrate:axis-' + a)
        if n_in >= 2:
            R.bucket(f'integrate:n>=2:axis-{a}')
        op = 'spectrum' if ax == 0 else 'timeseries'
        for mode in ('mean', 'sum'):
            R.bucket('integrate:' + mode)
            ref, bound = ref_reduce(P.data, ax, mode)
            key = f'integrate:{mode}:axis-{a}'
            with common.quiet():
                raw = stg.integrate(fr, axis=spelling, mode=mode)
            check_values(R, raw, ref, bound, key, 'reduce', spelling=repr(spelling), T=T, F=F)
            if isinstance(raw, np.ndarray):
                held.append((key + ':' + repr(spelling), raw, raw.copy()))
            raw = np.asarray(raw)
            if raw.shape != ref.shape:
                continue
            if isinstance(spelling, str):
                R.bucket('integrate:ndarray-input')
                with common.quiet():
                    raw_a = stg.integrate(plain, axis=spelling, mode=mode)
                check_values(R, raw_a, ref, bound, key + ':ndarray-input', 'reduce', T=T, F=F)
            R.bucket('integrate:normalize')
            with common.quiet():
                nrm = stg.integrate(fr, axis=spelling, mode=mode, normalize=True)
            check_normalised(R, nrm, raw, f'integrate:normalize:axis-{a}', mode=mode, T=T, F=F)
            # frame-valued results: integrate(as_frame=True) and the spectrum / timeseries wrappers
            for nz in (False, True):
                objs = []
                with common.quiet():
                    if isinstance(spelling, str):
                        R.bucket('integrate:as_frame')
                        objs.append(('as_frame', stg.integrate(fr, axis=spelling, mode=mode, normalize=nz, as_frame=True)))
                    else:
                        R.bucket('integrate:wrapper-' + op)
                        f = stg.spectrum if ax == 0 else stg.timeseries
                        objs.append(('wrapper', f(fr, mode=mode, normalize=nz)))
                for how, obj in objs:
                    kk = f'{op}:{how}'
                    want_shape = (1, F) if ax == 0 else (T, 1)
                    od = np.asarray(obj.data)
                    if R.check(od.shape == want_shape, f'{kk}:data-shape', got=list(od.shape), want=list(want_shape)):
                        if nz:
                            check_normalised(R, od.reshape(-1), raw, f'{kk}:normalize', mode=mode, T=T, F=F)
                        else:
                            check_values(R, od.reshape(-1), ref, bound, f'{kk}:{mode}', 'reduce', T=T, F=F)
                    if ax == 0:
                        check_axis(R, obj.fs, P.fs, P.tolf, f'{kk}:fs:{P.o}', 'spectrum_fs', T=T, F=F)
                        check_kept(R, P, obj, op, fr, df=True, dt=False)
                    else:
                        check_axis(R, obj.ts, P.ts, 4 * common.ulp(max(T * P.dt, 1e-300)), f'{kk}:ts', 'timeseries_ts', T=T, F=F)
                        check_kept(R, P, obj, op, fr, df=False, dt=True)
                    meta.look(R, P, obj, op)
    for nm_, arr_, cp_ in held:
        R.count('held_integrations_looked_at_again')
        R.check(np.array_equal(arr_, cp_, equal_nan=True), 'integrate:earlier-result-changed-by-a-later-integration', which=nm_, held=len(held))
        R.check(not np.shares_memory(arr_, fr.data), 'integrate:result-is-a-view-of-the-frame', which=nm_)
    # integration reads the frame: every pixel of the parent is as it was
    R.check(np.array_equal(np.asarray(fr.data), P.data), 'integrate:changed-parent-data', changed=int((np.asarray(fr.data) != P.data).sum()))
    # ... also when some samples are blanked (NaN) or saturated (inf): they stay where they are, and the mean / sum of a column
    # or row that contains one is not a finite number made up from the others
    if T >= 2 and F >= 3:
        R.bucket('integrate:non-finite-samples')
        probe = stg.Frame.from_data(P.df, P.dt, float(fr.fch1), P.asc, np.array(P.data, dtype=np.float64, copy=True))
        i_n, j_n, j_i = int(T // 2), int(F // 3), int(F - 1)
        probe.data[i_n, j_n] = np.nan
        probe.data[0, j_i] = np.inf
        before = np.array(probe.data, copy=True)
        for spelling in ('t', 'f'):
            for mode in ('mean', 'sum'):
                with np.errstate(all='ignore'), common.quiet():
                    out = np.asarray(stg.integrate(probe, axis=spelling, mode=mode), dtype=float)
                R.check(np.array_equal(np.asarray(probe.data), before, equal_nan=True), 'integrate:changed-parent-data:non-finite-samples',
                        axis=spelling, mode=mode)
                if spelling == 't' and out.shape == (F,):
                    R.check(bool(np.isnan(out[j_n])) and bool(np.isinf(out[j_i]) or np.isnan(out[j_i])), 'integrate:non-finite-sample-ignored',
                            axis='t', mode=mode, nan_col=float(out[j_n]), inf_col=float(out[j_i]))
                elif spelling == 'f' and out.shape == (T,):
                    R.check(bool(np.isnan(out[i_n])), 'integrate:non-finite-sample-ignored', axis='f', mode=mode, nan_row=float(out[i_n]))
    R.mark_nontrivial(F >= 2 and T >= 2)


# ------------------------------------------------------------------------------------ driver

def run_case(c, R):
    stg = common.import_setigen()
    R.bucket('op:' + c['op'])
    meta = Meta()
    if c['op'] == 'signal':
        run_signal(stg, c, R, meta)
    else:
        fr = build_parent(stg, c, R)
        if c['op'] == 'slice':
            run_slice(stg, c, R, fr, meta)
        elif c['op'] == 'dedrift':
            run_dedrift(stg, c, R, fr, meta)
        else:
            run_integrate(stg, c, R, fr, meta)
    meta.report(R)


MANIFEST = {
    'text': 'Runtime monitoring: post-conditions on get_slice / dedrift / integrate / spectrum / timeseries against index-level '
            'references written from the property (column selection, per-row shift with the output band located through the '
            'child\'s own first frequency label, admissible widths and rejection, constant-drift signal within one channel, '
            'long-double reductions, independent sigma clip), plus orientation / resolution / start time / source name / '
            'copy-not-view of every derived frame, over stratified geometries, orientations, parent routes (synthetic, '
            'float32, .fil / .h5 loaded, derived, consolidated cadence) and drift classes of either sign up to and beyond the frame\'s limit. '
            'Held = no monitor fired on the executions produced; this is exploration, not proof.',
    'note': '; '.join(ASSUMPTIONS),
    'technique': 'runtime post-condition monitors with independent index-level reference models',
}
