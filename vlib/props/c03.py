"""C03 -- save/load through .fil/.h5 preserves data and axis registration.

Monitor: post-condition on Frame.save_fil / save_hdf5 / save_h5: the file just written is
re-read (a) by setigen (Frame(waterfall=path)), (b) by an independent SIGPROC / HDF5 reader
and (c) by blimpy, and compared with a snapshot of the frame as it was when saved;
post-condition on get_waterfall(); helper-axis post-conditions on get_fs / get_ts /
min_freq / max_freq / get_data (real files + in-memory header sweep).
Workload: random op histories (get_waterfall / copy / save / reload / slice / dedrift /
pickle) on frames from every construction route, both orientations, both formats.
"""
import os
import shutil
import numpy as np
from .. import common, attach
from ..ref import filfile

ID = 'C03'
LEVEL = 'exploration'
RULE = ('random histories: start in {synthetic, from_data, shape, loaded .fil, loaded .h5, loaded with f_start/f_stop} then 0-6 operations '
        'from {add_noise, add_signal, get_waterfall, copy, save (either format), reload, get_slice, dedrift, pickle round-trip}, then a '
        'final monitored save in both formats; both orientations, fchans 1..512, tchans 1..32, ugly df/dt/fch1, distinctive non-symmetric '
        'content; helper sweep over (fch1, foff, nchans, tsamp) on an in-memory header; non-trivial = a frame with >=2 channels and >=2 '
        'rows whose history contains >=1 operation was saved and re-read by all three readers; distinct = distinct descriptor')
ASSUMPTIONS = ['comparison is with the frame as it was when saved (a derived frame\'s own attributes)',
               'intensities compared to float32 precision (1 ulp32); frequencies to 1e-3*df; df/dt to 1e-9 relative; t_start to 1e-4 s',
               'header frequencies are in MHz, tstart in MJD; file channel k holds sky frequency fch1 + k*foff',
               'blimpy is the independent reader named by the property; an own SIGPROC/HDF5 parser backs it for the header fields and data',
               'HDF5 round trips are only driven for frames of >= 3 integrations and >= 3 channels (blimpy\'s reader rejects smaller files)',
               'blimpy container conventions (f_start/f_stop as band edges) are not judged: get_waterfall() is judged by its header and data only']
STARTS = ['synthetic', 'from_data', 'shape', 'loaded_fil', 'loaded_h5', 'loaded_fsel', 'loaded_tsel', 'loaded_foreign']
OPS = ['add_noise', 'add_signal', 'get_waterfall', 'copy', 'save_fil', 'save_h5', 'reload_fil', 'reload_h5', 'get_slice', 'dedrift', 'pickle',
       'other_frame', 'retime', 'retune', 'rewrap', 'rebind', 'failed_save', 'consolidate']


def required(tier):
    b = {f'start:{s}': 5 for s in STARTS}
    b.update({f'op:{o}': 10 for o in OPS})
    b.update({'orient:asc': 30, 'orient:desc': 30, 'fmt:fil': 100, 'fmt:h5': 100, 'derived-frame-saved': 30,
              'saved-after-get_waterfall': 20, 'helper-sweep': 15, 'ancestor-saved-after-child': 30, 'consolidated-frame-saved': 10})
    return {'buckets': b, 'counters': {'saves_monitored': 300, 'helper_header_combos': 2000, 'pixels_compared': 100000},
            'checks': 5000, 'nontrivial': 100}


def gen_cases(seed, tier):
    rng = np.random.default_rng([seed, 3])
    n = 300 if tier == 'quick' else 30000
    cases = []
    for i in range(n):
        start = common.stratum(i, 1, STARTS)
        fchans = int(common.pick(rng, [1, 2, 3, 8, 64, 256, 512])) if rng.random() < 0.3 else int(rng.integers(4, 300))
        tchans = int(common.pick(rng, [1, 2, 16, 32])) if rng.random() < 0.4 else int(rng.integers(1, 33))
        df = float(common.pick(rng, common.UGLY_DF)) if rng.random() < 0.7 else float(10 ** rng.uniform(-1, 5))
        dt = float(common.pick(rng, common.UGLY_DT)) if rng.random() < 0.7 else float(10 ** rng.uniform(-2, 1.5))
        fch1 = float(common.pick(rng, common.UGLY_FCH1))
        if fch1 - fchans * df < 1e6:
            fch1 = fchans * df + 1e8
        nops = int(rng.integers(0, 7))
        ops = []
        for _ in range(nops):
            o = OPS[int(rng.integers(len(OPS)))]
            ops.append(dict(op=o, a=float(rng.random()), b=float(rng.random())))
        # make sure every op kind is reached regardless of seed
        ops.insert(0, dict(op=common.stratum(i, 2, OPS), a=float(rng.random()), b=float(rng.random())))
        if start in ('loaded_fsel', 'loaded_tsel', 'loaded_h5'):
            # what a selected / HDF5-loaded frame is typically used for first: its in-session Waterfall written by blimpy, or a
            # copy that is saved (while the parent's Waterfall still holds the selection / the open file handle)
            first = common.stratum(i, 5, 4)
            if first in (0, 1):
                ops.insert(0, dict(op='get_waterfall', a=0.2, b=0.2 + 0.6 * first))
            elif first == 2 or start == 'loaded_fsel':
                ops[0:0] = [dict(op='copy', a=0.5, b=0.5), dict(op=common.stratum(i, 6, ['save_fil', 'save_h5']), a=0.5, b=0.5)]
        cases.append(dict(start=start, asc=bool(common.stratum(i, 3, 2)), fchans=fchans, tchans=tchans, df=df, dt=dt, fch1=fch1,
                          ops=ops, name=str(common.pick(rng, ['Synthetic', 'VOYAGER-1', 'TIC 141146667 b', 'x', 'A_long_source_name_0123456789', '', ''])),
                          mjd=float(58000 + rng.uniform(0, 3000)), helper=bool(common.stratum(i, 4, 10) == 0), sub=int(rng.integers(2 ** 31))))
    return cases


def h5_ok(fr):
    # blimpy's HDF5 reader refuses files with fewer than 3 integrations or 3 channels (examine_h5)
    return fr.tchans >= 3 and fr.fchans >= 3


def marker(rng, t, f):
    return (np.arange(t)[:, None] * 1000.0 + np.arange(f)[None, :] * 1.0 + rng.uniform(0, 0.5, size=(t, f)) + 3.0)


def snapshot(fr):
    return dict(data=np.array(fr.data, dtype=np.float64, copy=True), fs=np.array(fr.fs, copy=True), df=float(fr.df), dt=float(fr.dt),
                asc=bool(fr.ascending), t_start=float(fr.t_start), source_name=fr.source_name, shape=tuple(fr.shape),
                fchans=int(fr.fchans), tchans=int(fr.tchans))


def verify_file(stg, path, fmt, snap, R, tag):
    """The three re-reads of a file just written, against the snapshot of the frame that wrote it."""
    R.count('saves_monitored')
    R.bucket('fmt:' + fmt)
    T, F = snap['shape']
    sfx = ':' + tag if tag else ''
    tol32 = np.spacing(np.maximum(np.abs(snap['data']), 1e-30).astype(np.float32)).astype(np.float64)
    fs_file = snap['fs'] if snap['asc'] else snap['fs'][::-1]           # sky frequency of file channel k
    data_file = snap['data'] if snap['asc'] else snap['data'][:, ::-1]
    # (a) setigen
    with common.quiet():
        G = stg.Frame(waterfall=path)
    ok = tuple(G.shape) == (T, F)
    R.check(ok, 'reload-shape' + sfx, got=list(G.shape), want=[T, F], fmt=fmt)
    if ok:
        R.check(bool(np.all(np.abs(np.asarray(G.data, dtype=np.float64) - snap['data']) <= tol32)), 'reload-data' + sfx, fmt=fmt,
                nbad=int((np.abs(np.asarray(G.data, dtype=np.float64) - snap['data']) > tol32).sum()))
        R.count('pixels_compared', T * F)
        R.check(bool(np.all(np.abs(G.fs - snap['fs']) <= 1e-3 * snap['df'])), 'reload-frequency-axis' + sfx, fmt=fmt,
                maxerr=float(np.max(np.abs(G.fs - snap['fs']))), df=snap['df'])
    R.check(abs(G.df - snap['df']) <= 1e-9 * snap['df'] and abs(G.dt - snap['dt']) <= 1e-9 * snap['dt'], 'reload-resolutions' + sfx,
            df=[G.df, snap['df']], dt=[G.dt, snap['dt']], fmt=fmt)
    R.check(bool(G.ascending) == snap['asc'], 'reload-orientation' + sfx, fmt=fmt)
    R.check(abs(G.t_start - snap['t_start']) <= 1e-4, 'reload-t_start' + sfx, got=G.t_start, want=snap['t_start'], fmt=fmt)
    gname = G.source_name.decode() if isinstance(G.source_name, bytes) else G.source_name
    sname = snap['source_name'].decode() if isinstance(snap['source_name'], bytes) else snap['source_name']
    R.check(gname == sname, 'reload-source_name' + sfx, got=repr(G.source_name), want=repr(snap['source_name']), fmt=fmt)
    # (b) own parser
    try:
        hdr, data = (filfile.read_fil if fmt == 'fil' else filfile.read_h5)(path)
    except Exception as e:                                   # noqa
        R.violate('file-unreadable-by-independent-parser' + sfx, fmt=fmt, err=repr(e))
        return G
    ok = data.shape == (T, 1, F)
    R.check(ok, 'file-data-shape' + sfx, got=list(data.shape), want=[T, 1, F], fmt=fmt)
    R.check(hdr.get('nchans') == F, 'file-nchans' + sfx, got=hdr.get('nchans'), want=F, fmt=fmt)
    fk = (hdr['fch1'] + np.arange(F) * hdr['foff']) * 1e6
    R.check(bool(np.all(np.abs(fk - fs_file) <= 1e-3 * snap['df'])) if len(fk) == len(fs_file) else False, 'file-channel-frequencies' + sfx,
            fmt=fmt, fch1=hdr['fch1'], foff=hdr['foff'], want_fch1=float(fs_file[0] * 1e-6))
    R.check((hdr['foff'] > 0) == snap['asc'] and abs(abs(hdr['foff']) * 1e6 - snap['df']) <= 1e-9 * snap['df'], 'file-foff' + sfx,
            got=hdr['foff'], fmt=fmt)
    R.check(abs(hdr['tsamp'] - snap['dt']) <= 1e-9 * snap['dt'], 'file-tsamp' + sfx, got=hdr['tsamp'], fmt=fmt)
    from astropy.time import Time
    R.check(abs(Time(hdr['tstart'], format='mjd').unix - snap['t_start']) <= 1e-4, 'file-tstart' + sfx, got=hdr['tstart'], fmt=fmt)
    if ok:
        d2 = np.asarray(data[:, 0, :], dtype=np.float64)
        tolf = tol32 if snap['asc'] else tol32[:, ::-1]
        R.check(bool(np.all(np.abs(d2 - data_file) <= tolf)), 'file-pixel-at-wrong-frequency-or-value' + sfx, fmt=fmt,
                nbad=int((np.abs(d2 - data_file) > tolf).sum()))
    # (c) blimpy
    from blimpy import Waterfall
    with common.quiet():
        wf = Waterfall(path)
        freqs, bdata = wf.grab_data()
    bdata = np.asarray(bdata, dtype=np.float64)
    if bdata.size == T * F:
        bdata = bdata.reshape(T, F)             # grab_data squeezes singleton axes
    okb = bdata.shape == (T, F) and len(freqs) == F
    R.check(okb, 'blimpy-shape' + sfx, got=list(bdata.shape), fmt=fmt)
    if okb:
        # blimpy returns (freqs, data) in the same column order: every pixel must sit at its sky frequency
        order = np.argsort(freqs)
        fsort = np.asarray(freqs)[order] * 1e6
        R.check(bool(np.all(np.abs(fsort - snap['fs']) <= 1e-3 * snap['df'])), 'blimpy-frequencies' + sfx, fmt=fmt)
        R.check(bool(np.all(np.abs(bdata[:, order] - snap['data']) <= tol32)), 'blimpy-pixel-at-wrong-frequency' + sfx, fmt=fmt)
    try:
        wf.container.h5.close()
    except Exception:
        pass
    # helper functions on the real file
    with common.quiet():
        hfs = stg.get_fs(path)
        hts = stg.get_ts(path)
        hmin, hmax = stg.min_freq(path), stg.max_freq(path)
        hdata = stg.get_data(path)
    R.check(len(hfs) == F, 'helper-get_fs-length' + sfx, got=len(hfs), want=F, fmt=fmt)
    if len(hfs) == F:
        R.check(bool(np.all(np.abs(np.asarray(hfs) * 1e6 - fs_file) <= 1e-3 * snap['df'])), 'helper-get_fs-values' + sfx, fmt=fmt)
    R.check(len(hts) == T, 'helper-get_ts-length' + sfx, got=len(hts), want=T, fmt=fmt)
    if len(hts) == T:
        R.check(bool(np.all(np.abs(np.asarray(hts) - np.arange(T) * snap['dt']) <= 1e-9 * max(T * snap['dt'], 1e-300))), 'helper-get_ts-values' + sfx)
    R.check(abs(hmin * 1e6 - snap['fs'][0]) <= 1e-3 * snap['df'] and abs(hmax * 1e6 - snap['fs'][-1]) <= 1e-3 * snap['df'],
            'helper-min_freq-max_freq' + sfx, got=[hmin, hmax], fmt=fmt)
    R.check(np.shape(hdata) == (T, F) and bool(np.all(np.abs(np.asarray(hdata, dtype=np.float64) - data_file) <= (tol32 if snap['asc'] else tol32[:, ::-1]))),
            'helper-get_data' + sfx, fmt=fmt)
    return G


def run_case(c, R):
    stg = common.import_setigen()
    d = os.path.join(os.environ['VERIF_TMP'], f"c03_{c['_idx']}")
    os.makedirs(d, exist_ok=True)
    try:
        _run(stg, c, d, R)
    finally:
        attach.restore_all()
        shutil.rmtree(d, ignore_errors=True)


def _run(stg, c, d, R):
    rng = np.random.default_rng(c['sub'])
    R.bucket('start:' + c['start'])
    R.bucket('orient:asc' if c['asc'] else 'orient:desc')
    T, F = c['tchans'], c['fchans']
    kw = dict(df=c['df'], dt=c['dt'], fch1=c['fch1'], ascending=c['asc'])
    counter = [0]

    def newpath(ext):
        # every other file name is re-used: the save then overwrites a file that was written (and read back) earlier in this
        # history, possibly with another geometry
        counter[0] += 1
        if counter[0] % 2 == 0 and ext in ('fil', 'h5'):
            return os.path.join(d, f'again.{ext}')
        return os.path.join(d, f'f{counter[0]}.{ext}')
    base = stg.Frame(fchans=F, tchans=T, seed=c['sub'], mjd=c['mjd'], source_name=c['name'], **kw)
    base.data = marker(rng, T, F)
    if c['start'] == 'synthetic':
        fr = base
    elif c['start'] == 'from_data':
        fr = stg.Frame.from_data(c['df'], c['dt'], c['fch1'], c['asc'], marker(rng, T, F), seed=c['sub'])
    elif c['start'] == 'shape':
        fr = stg.Frame(shape=(T, F), seed=c['sub'], t_start=1.6e9 + c['mjd'], **kw)
        fr.data = marker(rng, T, F)
    elif c['start'] == 'loaded_foreign':
        # an observation NOT written by setigen (own SIGPROC writer): header values setigen's constructor never produced itself,
        # e.g. a blank source name
        from astropy.time import Time
        p0 = newpath('fil')
        fs_file = base.fs if c['asc'] else base.fs[::-1]
        data_file = base.data if c['asc'] else base.data[:, ::-1]
        filfile.write_fil(p0, dict(fch1=float(fs_file[0]) * 1e-6, foff=(c['df'] if c['asc'] else -c['df']) * 1e-6, tsamp=c['dt'],
                                   tstart=float(Time(base.t_start, format='unix').mjd),
                                   source_name=common.pick(rng, ['', '', 'B0329+54', 'DIAG_SGR_B2'])), np.asarray(data_file, dtype=np.float32))
        with common.quiet():
            fr = stg.Frame(waterfall=p0)
    else:
        # the selected routes read .fil and .h5 products alike (an HDF5-loaded frame keeps an open file handle in its Waterfall)
        ext = 'h5' if ((c['start'] == 'loaded_h5' or (c['start'] in ('loaded_fsel', 'loaded_tsel') and c['sub'] % 2 == 0))
                       and T >= 3 and F >= 3) else 'fil'
        R.bucket('start-file:' + c['start'] + ':' + ext)
        p0 = newpath(ext)
        with common.quiet():
            (base.save_h5 if ext == 'h5' else base.save_fil)(p0)
            if c['start'] == 'loaded_tsel' and T >= 4:
                # a blimpy Waterfall opened with a TIME selection (integration indices) handed to the constructor: the frame holds
                # those integrations and starts when the first of them starts
                from blimpy import Waterfall as _WF
                a_i = int(rng.integers(1, T - 2))
                b_i = int(rng.integers(a_i + 2, T + 1)) if ext != 'h5' else int(rng.integers(min(a_i + 3, T), T + 1))
                fr = stg.Frame(waterfall=_WF(p0, t_start=a_i, t_stop=b_i))
                R.check(tuple(fr.shape) == (b_i - a_i, F) and np.allclose(np.asarray(fr.data, dtype=np.float64), base.data[a_i:b_i], rtol=1e-6, atol=0),
                        'time-selected-waterfall:shape-or-data', shape=list(fr.shape), want=[b_i - a_i, F])
                R.check(abs(float(fr.t_start) - (float(base.t_start) + a_i * base.dt)) <= 1e-4, 'time-selected-waterfall:frame-t_start',
                        got=float(fr.t_start) - float(base.t_start), want=a_i * base.dt, first_integration=a_i)
            elif c['start'] == 'loaded_fsel' and F >= 4:
                lo_i, hi_i = sorted([int(x) for x in rng.choice(np.arange(F), size=2, replace=False)])
                hi_i = max(hi_i, lo_i + 1)
                f_lo = (base.fs[lo_i] - 0.25 * base.df) * 1e-6
                f_hi = (base.fs[hi_i] + 0.25 * base.df) * 1e-6
                fr = stg.Frame(waterfall=p0, f_start=f_lo, f_stop=f_hi)
            else:
                fr = stg.Frame(waterfall=p0)
    nops = 0
    derived = False
    saw_get_wf = False
    ancestors = []          # frames this history derived something from (they must still save correctly afterwards)
    for o in c['ops']:
        op = o['op']
        R.bucket('op:' + op)
        nops += 1
        with common.quiet():
            if op == 'add_noise':
                fr.add_noise(x_mean=5.0, x_std=1.0, noise_type='gaussian')
            elif op == 'add_signal':
                fr.add_constant_signal(f_start=fr.get_frequency(int(o['a'] * fr.fchans)), drift_rate=(o['b'] - 0.5) * fr.unit_drift_rate,
                                       level=50.0, width=2 * fr.df, f_profile_type='gaussian')
            elif op == 'get_waterfall':
                snap = snapshot(fr)
                wf = fr.get_waterfall()
                saw_get_wf = True
                check_waterfall_object(wf, snap, R)
                if o['a'] < 0.5:
                    # the in-session Waterfall is the frame as a blimpy object: written with blimpy's own writers it is the file
                    # the frame would have saved
                    fmt_ = 'h5' if (o['b'] < 0.5 and h5_ok(fr)) else 'fil'
                    R.bucket('in-session-waterfall-written-by-blimpy:' + fmt_)
                    p = newpath(fmt_)
                    (wf.write_to_hdf5 if fmt_ == 'h5' else wf.write_to_fil)(p)
                    verify_file(stg, p, fmt_, snap, R, 'written-from-the-in-session-waterfall')
            elif op == 'copy':
                ancestors.append(fr)
                fr = fr.copy()
            elif op == 'retime':
                # the start time is re-assigned after the frame has possibly been saved / turned into a Waterfall already:
                # directly, or by the library itself (Cadence(t_overwrite=True) re-spaces its members)
                if o['a'] < 0.5:
                    fr.t_start = float(fr.t_start) + 86400.0 * (0.5 + o['b'])
                else:
                    lead = stg.Frame(fchans=fr.fchans, tchans=2, df=fr.df, dt=fr.dt, fch1=fr.fch1, ascending=fr.ascending, seed=2,
                                     t_start=float(fr.t_start) + 1234.5 + 1000 * o['b'])
                    if lead.fmin == fr.fmin:
                        stg.Cadence([lead, fr], t_slew=17.0 + 100 * o['b'], t_overwrite=True)
                    else:
                        fr.t_start = float(fr.t_start) + 4321.0
            elif op == 'other_frame':
                # an unrelated frame of another geometry is built and saved / turned into a Waterfall in between
                other = stg.Frame(fchans=int(5 + o['a'] * 40), tchans=int(3 + o['b'] * 9), df=7.0, dt=3.0, fch1=2.5e9,
                                  ascending=not c['asc'], seed=1, t_start=1.5e9, source_name='OTHER')
                other.data = marker(rng, other.tchans, other.fchans)
                osnap = snapshot(other)
                if o['a'] < 0.5:
                    other.get_waterfall()
                po = newpath('fil')
                other.save_fil(po)
                verify_file(stg, po, 'fil', osnap, R, 'unrelated-frame')
            elif op in ('save_fil', 'save_h5'):
                if op == 'save_h5' and not h5_ok(fr):
                    R.count('h5_skipped_blimpy_minimum_3x3')
                    continue
                p = newpath('fil' if op == 'save_fil' else 'h5')
                snap = snapshot(fr)
                (fr.save_fil if op == 'save_fil' else fr.save_h5)(p)
                verify_file(stg, p, 'fil' if op == 'save_fil' else 'h5', snap, R, 'derived-frame' if derived else '')
            elif op in ('reload_fil', 'reload_h5'):
                if op == 'reload_h5' and not h5_ok(fr):
                    R.count('h5_skipped_blimpy_minimum_3x3')
                    continue
                p = newpath('fil' if op == 'reload_fil' else 'h5')
                snap = snapshot(fr)
                (fr.save_fil if op == 'reload_fil' else fr.save_hdf5)(p)
                fr = verify_file(stg, p, 'fil' if op == 'reload_fil' else 'h5', snap, R, 'derived-frame' if derived else '')
                derived = False            # a frame loaded from its own file is a loaded frame again
            elif op == 'get_slice' and fr.fchans >= 3:
                l = int(o['a'] * (fr.fchans - 2))
                r = l + 1 + int(o['b'] * (fr.fchans - l - 1))
                ancestors.append(fr)
                fr = fr.get_slice(l, max(r, l + 1))
                derived = True
            elif op == 'dedrift' and fr.fchans >= 8 and fr.tchans >= 2:
                maxd = 0.3 * fr.fchans * fr.df / (fr.tchans * fr.dt)
                ancestors.append(fr)
                fr = stg.dedrift(fr, (o['a'] - 0.5) * 2 * maxd)
                derived = True
            elif op == 'retune':
                # processed data handed back together with the Waterfall of the frame it came from (the documented from_data
                # route), but describing ANOTHER band of the same shape: equal shape does not mean equal band
                k = [40, 100, -7][int(o['a'] * 3) % 3]
                wf = fr.get_waterfall()
                ancestors.append(fr)
                fr = stg.Frame.from_data(fr.df, fr.dt, fr.fch1 + k * fr.df, fr.ascending, marker(rng, fr.tchans, fr.fchans),
                                         waterfall=wf, t_start=float(fr.t_start), source_name=fr.source_name)
                derived = True
            elif op == 'rewrap':
                # the frame's in-session Waterfall OBJECT handed to the constructor, twice: both frames hold the frame's content at
                # the frame's frequencies, and neither the object's owner nor the first frame is changed by building the second
                snap = snapshot(fr)
                wf = fr.get_waterfall()
                g1 = stg.Frame(waterfall=wf)
                s1 = snapshot(g1)
                g2 = stg.Frame(waterfall=wf)
                tol32 = np.spacing(np.maximum(np.abs(snap['data']), 1e-30).astype(np.float32)).astype(np.float64)
                for nm, g_ in (('first', g1), ('second', g2)):
                    okd = tuple(g_.shape) == snap['shape'] and bool(np.all(np.abs(np.asarray(g_.data, dtype=np.float64) - snap['data']) <= tol32))
                    R.check(okd, 'frame-from-waterfall-object:data:' + nm, shape=list(g_.shape))
                    R.check(tuple(g_.shape) == snap['shape'] and bool(np.all(np.abs(g_.fs - snap['fs']) <= 1e-3 * snap['df']))
                            and bool(g_.ascending) == snap['asc'], 'frame-from-waterfall-object:frequency-axis:' + nm)
                after = snapshot(fr)
                R.check(np.array_equal(after['data'], snap['data']) and np.array_equal(after['fs'], snap['fs']),
                        'building-a-frame-from-its-waterfall-changed-the-original-frame')
                a1 = snapshot(g1)
                R.check(np.array_equal(a1['data'], s1['data']), 'second-frame-from-the-same-waterfall-object-changed-the-first')
                ancestors.append(fr)
                fr = g2
                derived = True
            elif op == 'rebind':
                # the frame's data REPLACED by a new array (normalised copy, zero_data, load_npy, plain assignment) after it may
                # already have been saved or turned into a Waterfall: what is saved afterwards is what the frame holds now
                if o['a'] < 0.3:
                    fr.zero_data()
                    fr.data += marker(rng, fr.tchans, fr.fchans)
                else:
                    fr.data = marker(rng, fr.tchans, fr.fchans)
            elif op == 'failed_save':
                # a save that cannot succeed (no such directory), caught by the caller, who then carries on with the same frame
                bad = os.path.join(d, 'no', 'such', 'dir', 'x.' + ('fil' if o['a'] < 0.5 or not h5_ok(fr) else 'h5'))
                snap = snapshot(fr)
                try:
                    (fr.save_fil if bad.endswith('.fil') else fr.save_h5)(bad)
                    R.count('failed_save_did_not_fail')
                except Exception:  # noqa
                    R.count('failed_saves')
                after = snapshot(fr)
                R.check(np.array_equal(after['data'], snap['data']) and after['source_name'] == snap['source_name']
                        and after['t_start'] == snap['t_start'], 'failed-save-changed-the-frame')
            elif op == 'consolidate':
                # the frame and a later observation of the same band concatenated by a cadence (its time axis then holds absolute
                # times); the result starts when the first member starts
                later = stg.Frame(fchans=fr.fchans, tchans=int(2 + o['a'] * 6), df=fr.df, dt=fr.dt, fch1=fr.fch1, ascending=fr.ascending,
                                  seed=3, t_start=float(fr.t_start) + fr.tchans * fr.dt + 50.0 + 500 * o['b'], source_name=fr.source_name)
                later.data = marker(rng, later.tchans, later.fchans)
                if later.fmin == fr.fmin and later.df == fr.df and later.dt == fr.dt:
                    t_first = float(fr.t_start)
                    ancestors.append(fr)
                    fr = stg.Cadence([fr, later]).consolidate()
                    R.check(abs(float(fr.t_start) - t_first) <= 1e-6, 'consolidated-frame-start-time', got=float(fr.t_start) - t_first)
                    derived = True
                    R.bucket('consolidated-frame-saved')
            elif op == 'pickle':
                p = newpath('pickle')
                fr.save_pickle(p)
                fr = stg.Frame.load_pickle(p)
            else:
                nops -= 1
    if derived:
        R.bucket('derived-frame-saved')
    if saw_get_wf:
        R.bucket('saved-after-get_waterfall')
    tag = 'derived-frame' if derived else ''
    for fmt in ('fil', 'h5'):
        if fmt == 'h5' and not h5_ok(fr):
            R.count('h5_skipped_blimpy_minimum_3x3')
            continue
        p = newpath(fmt)
        snap = snapshot(fr)
        with common.quiet():
            (fr.save_fil if fmt == 'fil' else fr.save_h5)(p)
        # the save must not change the frame itself
        after = snapshot(fr)
        R.check(np.array_equal(after['data'], snap['data']) and np.array_equal(after['fs'], snap['fs']) and after['t_start'] == snap['t_start'],
                'save-modified-the-frame', fmt=fmt)
        verify_file(stg, p, fmt, snap, R, tag)
    # ancestors of the final frame: deriving / copying / saving a child must not have changed how the parent saves
    for ai, anc in enumerate(ancestors[-3:]):
        R.bucket('ancestor-saved-after-child')
        for fmt in ('fil', 'h5'):
            if fmt == 'h5' and not h5_ok(anc):
                continue
            p = newpath(fmt)
            snap = snapshot(anc)
            with common.quiet():
                (anc.save_fil if fmt == 'fil' else anc.save_h5)(p)
            verify_file(stg, p, fmt, snap, R, 'ancestor-after-child')
    R.mark_nontrivial(fr.fchans >= 2 and fr.tchans >= 2 and nops >= 1)
    if c['helper']:
        helper_sweep(stg, c, d, R, rng)


def check_waterfall_object(wf, snap, R):
    """In-session equivalent of the saved file: header + data of Frame.get_waterfall()."""
    T, F = snap['shape']
    h = wf.header
    fs_file = snap['fs'] if snap['asc'] else snap['fs'][::-1]
    data_file = snap['data'] if snap['asc'] else snap['data'][:, ::-1]
    R.check(h['nchans'] == F, 'get_waterfall-nchans', got=h['nchans'], want=F)
    R.check(abs(h['fch1'] * 1e6 - fs_file[0]) <= 1e-3 * snap['df'] and (h['foff'] > 0) == snap['asc']
            and abs(abs(h['foff']) * 1e6 - snap['df']) <= 1e-9 * snap['df'], 'get_waterfall-frequency-header', fch1=h['fch1'], foff=h['foff'])
    R.check(abs(h['tsamp'] - snap['dt']) <= 1e-9 * snap['dt'], 'get_waterfall-tsamp')
    wd = np.asarray(wf.data)
    R.check(wd.shape == (T, 1, F) and bool(np.all(wd[:, 0, :] == data_file)), 'get_waterfall-data', shape=list(wd.shape))


def helper_sweep(stg, c, d, R, rng):
    """Helpers read only the header: sweep (fch1, foff, nchans, tsamp, nints) on one in-memory Waterfall."""
    R.bucket('helper-sweep')
    fr = stg.Frame(fchans=8, tchans=4, df=1.0, dt=1.0, fch1=1e9)
    with common.quiet():
        wf = fr.get_waterfall()
    n = 400
    for _ in range(n):
        nch = int(common.pick(rng, [1, 2, 3, 51, 64, 256, 1000, 1024])) if rng.random() < 0.5 else int(rng.integers(1, 5000))
        foff = float(common.pick(rng, common.UGLY_DF)) * 1e-6 if rng.random() < 0.7 else float(10 ** rng.uniform(-7, -1))
        if rng.random() < 0.5:
            foff = -foff
        fch1 = float(common.pick(rng, common.UGLY_FCH1)) * 1e-6 if rng.random() < 0.7 else float(rng.uniform(100, 40000))
        tsamp = float(common.pick(rng, common.UGLY_DT)) if rng.random() < 0.7 else float(10 ** rng.uniform(-3, 2))
        nint = int(rng.integers(1, 400))
        wf.header.update(fch1=fch1, foff=foff, nchans=nch, tsamp=tsamp)
        wf.container.selection_shape = (nint, 1, nch)
        fs = stg.get_fs(wf)
        ts = stg.get_ts(wf)
        R.count('helper_header_combos')
        ok = len(fs) == nch
        R.check(ok, 'helper-get_fs-length', got=len(fs), want=nch, fch1=fch1, foff=foff)
        if ok:
            ref = fch1 + np.arange(nch) * foff
            R.check(bool(np.all(np.abs(fs - ref) <= 1e-3 * abs(foff))), 'helper-get_fs-values')
        ok = len(ts) == nint
        R.check(ok, 'helper-get_ts-length', got=len(ts), want=nint, tsamp=tsamp)
        if ok:
            R.check(bool(np.all(np.abs(ts - np.arange(nint) * tsamp) <= 1e-9 * nint * tsamp)), 'helper-get_ts-values')
        if len(fs):
            R.check(abs(stg.min_freq(wf) - min(fch1, fch1 + (nch - 1) * foff)) <= 1e-3 * abs(foff) + abs(foff) * (len(fs) != nch) * 0
                    if len(fs) == nch else True, 'helper-min_freq')


MANIFEST = {
    'text': 'Runtime monitoring: every save in random operation histories (all construction routes, derived frames, both orientations, both '
            'formats) is followed by three re-reads (setigen, an independent SIGPROC/HDF5 parser, blimpy) compared with a snapshot of the '
            'frame at save time; get_waterfall() and the stand-alone helper functions have their own post-conditions.',
    'note': '; '.join(ASSUMPTIONS),
    'technique': 'round-trip post-condition monitor with independent file parsers over random operation histories',
}
