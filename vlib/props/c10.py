"""C10 -- antenna streams deliver one continuous timeline however requests are chunked.

Monitor: post-conditions on DataStream.get_samples / Antenna.get_samples and on the clock
methods (set_time, add_time, reset_start, update_noise), evaluated after every step of a random
history, against a per-stream shadow (R-STREAM):

  * exact rational clock  T = t_set + (samples since) / sample_rate  (fractions.Fraction),
  * request times t_k = T + k/sample_rate evaluated in 80-bit extended precision,
  * closed-form chirp  level*cos(2*pi*((f_start-fch1)*t + drift*t^2/2) +/- phase)  evaluated on
    the reference times with the number of cycles reduced mod 1 in extended precision,
  * seeded noise: the samples a same-seed twin delivers for ONE request of the total length,
  * the user's custom source functions evaluated at the reference times,
  * clock / start-of-observation automaton for set_time, add_time, reset_start, update_noise.

The noise clause is differential on the real code (chunked history vs single request of a same-seed
twin); everything deterministic is compared with the independent closed forms.
"""
import copy
import math
from fractions import Fraction

import numpy as np

from .. import common

ID = 'C10'
LEVEL = 'exploration'
RULE = ('stratified histories: object {DataStream, Antenna 1 pol, Antenna 2 pols} x orientation x start time '
        '{default, 0, 1.5, 1e3, 1e6, random, negative} x history class {requests only, + set_time/add_time/reset_start, '
        '+ update_noise and sources added mid-way} x source composition {noise, chirp, custom, noise+chirp, all, random, '
        'none}; sample rates 44.1 kHz .. 3 GHz, N <= 1e5 samples split into 1-12 requests (size-1 requests forced in), '
        '0-3 noise sources, 0-3 chirps (offsets tiny / mid-band / near Nyquist, drifts 0 / realistic / large of both '
        'signs, phases incl. omitted), custom sources real / complex / list-valued / integer / complex64; '
        'non-trivial = >= 2 requests and >= 1 decidable sample of a non-empty source set; distinct = distinct descriptor')
ASSUMPTIONS = [
    'time bound: an accumulated clock may deviate from the exact rational clock by 2 ulp(max|t|) per request and 1 ulp per '
    'add_time since the last set_time, plus 4 ulp; a request time t_k by that budget plus 6 ulp(max|t| of the request) '
    '(1/sample_rate, n*dt, linspace step, k*step and the final addition each round once)',
    'chirp bound per sample: level*(2*pi*(|f_start-fch1|+|drift|*tmax)*time_bound + 8*eps*|total phase| + 8*eps); custom '
    'sources likewise with their own derivative; the sum of m terms adds 8*eps*sum|terms|. Samples whose bound exceeds '
    '1e-2 of the smallest source amplitude are undecidable: counted, never counted as held',
    '"the phase negated for descending bands" is read as level*cos(2*pi*(...) - phase), which equals cos(-(2*pi*(...)) + phase); '
    'negating the whole argument would be vacuous because cos is even',
    'noise clause (chunk invariance): the reference noise is what a twin object (same constructor arguments, same seed, '
    'only the noise sources, added at the same points) returns for ONE request per stretch of the history between events '
    'that change the noise configuration (update_noise, a noise source added mid-way); how the generator is consumed is '
    'not prescribed. For seed=None the twin generator starts from a copy of the stream generator state after construction',
    'a shadow of the documented mechanism (all noise sources of a stream draw standard_normal(size=n) from the one stream '
    'generator, per request, per source; update_noise may or may not advance it) is used ONLY to attribute a chunk-dependence '
    'to its own mechanism key and to keep verifying the deterministic part of such streams',
    'start-of-observation flag: True at construction and after set_time/add_time/reset_start, False after a request',
    'add_time(t): new clock of the object asked within 1 ulp of (its old clock + t); set_time(t): every clock == t exactly; '
    'reset_start: clock of the antenna unchanged; the streams of an antenna are held to the accumulated-clock bound',
    'the Antenna clock is compared with its streams only for antennas driven through their own API (arrays are C15)',
]

KINDS = ['stream', 'ant1', 'ant2']
T0 = ['default', 'zero', 'small', 'kilo', 'mega', 'random', 'negative']
HIST = ['pure', 'clock', 'mixed']
COMP = ['noise', 'chirp', 'custom', 'noise+chirp', 'all', 'random', 'none']
RATES = [44100.0, 48000.0, 1e6, 2.5e6, 16777216.0, 1.7e8, 1.5e9, 2.4e9, 3e9]
FCH1 = [0.0, 1e9, 6e9, 8421.38671875e6, 1.42040575e9, 6095.214842353016e6]
CUSTOM = ['ramp', 'cramp', 'list', 'clist', 'cconst64', 'int', 'cexp']
CUSTOM_COMPLEX = {'cramp', 'clist', 'cconst64', 'cexp'}
EPS = float(np.finfo(float).eps)
LD = np.longdouble
DECIDE = 1e-2


def required(tier):
    b = {f'kind:{k}': 50 for k in KINDS}
    b.update({'probe:desync-reset': 10, 'probe:desync-add': 10, 'probe:desync-set': 10, 'probe:same-callable-twice': 10})
    b.update({f't0:{k}': 20 for k in T0})
    b.update({f'hist:{k}': 50 for k in HIST})
    b.update({f'comp:{k}': 20 for k in COMP})
    b.update({'orient:asc': 100, 'orient:desc': 100, 'op:set_time': 50, 'op:add_time': 50, 'op:reset_start': 10,
              'op:update_noise': 20, 'op:add-source-midway': 10, 'request:size-1': 50, 'requests>=2': 200,
              'custom:complex': 30, 'custom:real': 30, 'seed:int': 50, 'seed:none': 20, 'seed:generator': 10,
              'units:quantity': 50, 'noise:one-source': 50, 'noise:several-sources': 50, 'chirp:phase-omitted': 10})
    return {'buckets': b,
            'counters': {'requests': 2000, 'clock_checks': 2000, 'samples_decidable': 10 ** 6,
                         'noise_samples_decidable': 10 ** 5, 'chirp_samples_decidable': 10 ** 5,
                         'custom_samples_decidable': 10 ** 5, 'imag_samples_checked': 10 ** 4,
                         'drift_sensitive_samples': 10 ** 4, 'fch1_sensitive_samples': 10 ** 4,
                         'phase_sign_sensitive_samples': 10 ** 4, 'continued_requests': 1000,
                         'antenna_clock_checks': 500, 'twin_noise_samples': 10 ** 5, 'twin_requests': 200},
            'checks': 10000, 'nontrivial': 300}


# ------------------------------------------------------------------------------------------ workload

def _partition(rng, N, r):
    r = max(1, min(r, N))
    ones = 0
    if r >= 2 and N >= r + 2 and rng.random() < 0.35:
        ones = int(rng.integers(1, r))
    rest_n, rest_r = N - ones, r - ones
    if rest_r == 1:
        sizes = [rest_n]
    else:
        cuts = np.sort(rng.choice(np.arange(1, rest_n), size=rest_r - 1, replace=False))
        sizes = np.diff(np.concatenate([[0], cuts, [rest_n]])).astype(int).tolist()
    sizes += [1] * ones
    rng.shuffle(sizes)
    return [int(s) for s in sizes]


def _gen_history(rng, hist, is_ant, pols, fs, t0, tier):
    """ops: ['get', n] ['set', t] ['setcur'] ['add', t] ['reset'] ['upd', pol, m|None] ['addsrc', pol]
    (the source spec of addsrc is filled in later). Returns (ops, tmax)."""
    r = rng.random()
    if r < 0.35:
        N = int(rng.integers(1, 65))
    elif r < 0.8:
        N = int(rng.integers(200, 5001))
    else:
        N = int(rng.integers(20000, 100001))
    nreq = int(rng.integers(1, 13)) if rng.random() < 0.9 else 1
    sizes = _partition(rng, N, nreq)
    dt = 1.0 / fs
    ops = []
    t = float(t0)
    last_n = 0
    nclock = 0
    upd_run = 0

    def clock_op():
        nonlocal t, nclock
        k = int(rng.integers(0, 3 if is_ant else 2))
        if k == 0:
            v = common.pick(rng, [0, 5, 1.5, 1e3, 1e6 + 0.25, 'cur', float(t0), float(rng.uniform(0, 100)), -1.0,
                                  float(rng.uniform(0, 100))])
            if v == 'cur':
                ops.append(['setcur'])
            else:
                ops.append(['set', v])
                t = float(v)
        elif k == 1:
            v = common.pick(rng, [0, 0.0, float(int(rng.integers(1, 1000)) * dt), 0.5 * dt, -last_n * dt,
                                  float(rng.uniform(0, 10)), 1e3, -0.75, float(rng.uniform(0, 10)), 3])
            ops.append(['add', v])
            t = t + float(v)
        else:
            ops.append(['reset'])
        nclock += 1

    for j, n in enumerate(sizes + [None]):
        if hist != 'pure':
            while rng.random() < (0.3 if n is not None else 0.6):
                clock_op()
            if hist == 'mixed':
                if rng.random() < 0.25 and upd_run < 2:
                    ops.append(['upd', int(rng.integers(pols)), common.pick(rng, [None, 100, 1000, 1, 10000, 2500])])
                    upd_run += 1
                if rng.random() < 0.12 and n is not None:
                    ops.append(['addsrc', int(rng.integers(pols))])
        if n is None:
            break
        ops.append(['get', n])
        upd_run = 0
        last_n = n
        t = t + n * dt
    if hist != 'pure' and nclock == 0:
        pos = int(rng.integers(0, len(ops) + 1))
        save = ops[pos:]
        del ops[pos:]
        clock_op()
        ops.extend(save)
    if hist == 'mixed' and not any(o[0] == 'upd' for o in ops):
        ops.insert(int(rng.integers(0, len(ops) + 1)), ['upd', int(rng.integers(pols)), common.pick(rng, [None, 100, 1000])])
    return ops, _sim_tmax(ops, t0, fs)


def _sim_tmax(ops, t0, fs):
    """Largest |t| the history can reach (used to scale drifts / offsets so that samples stay decidable)."""
    t = float(t0)
    tm = abs(t)
    for o in ops:
        if o[0] == 'get':
            t += o[1] / fs
        elif o[0] == 'set':
            t = float(o[1])
        elif o[0] == 'add':
            t += float(o[1])
        elif o[0] == 'upd':
            tm = max(tm, abs(t + (o[2] or 10000) / fs))
        tm = max(tm, abs(t))
    return float(tm)


def _gen_chirp(rng, fs, fch1, asc, tmax, j):
    nyq = fs / 2
    oc = (j + int(rng.integers(3))) % 3
    frac = [10 ** rng.uniform(-6, -3), rng.uniform(0.01, 0.9), rng.uniform(0.9, 0.999)][oc]
    off = float(frac * nyq)
    if rng.random() < 0.85:
        # keep most chirps decidable: |offset| * tmax below ~2e10 cycles
        off = min(off, 2e10 / max(tmax, 1e-6))
    f = fch1 + off if asc else fch1 - off
    dc = int(rng.integers(5))
    tm = max(tmax, 1e-9)
    if dc == 0:
        d = 0.0
    elif dc in (1, 2):
        d = float(rng.uniform(0.01, 10)) * (1 if dc == 1 else -1)
    else:
        d = float(rng.uniform(0.5, 50)) / tm ** 2 * (1 if dc == 3 else -1)
    spec = dict(type='chirp', f=float(f), drift=d, level=float(rng.uniform(0.05, 5)),
                units=bool(rng.random() < 0.3))
    pc = int(rng.integers(5))
    if pc == 0:
        spec['phase'] = None            # omitted
    elif pc == 1:
        spec['phase'] = float(common.pick(rng, [math.pi / 2, -math.pi / 2, 1.0, 0.25]))
    else:
        spec['phase'] = float(rng.uniform(-math.pi, math.pi))
    return spec


def _gen_custom(rng, tmax, j, complex_only=False):
    forms = sorted(CUSTOM_COMPLEX) if complex_only else CUSTOM
    form = forms[(j + int(rng.integers(len(forms)))) % len(forms)]
    tm = max(tmax, 1e-6)
    spec = dict(type='custom', form=form,
                a=float(rng.uniform(0.2, 2) * common.pick(rng, [-1, 1]) / tm),
                b=float(rng.uniform(0.5, 2) * common.pick(rng, [-1, 1])),
                c=float(rng.uniform(0.2, 2) * common.pick(rng, [-1, 1]) / tm),
                d=float(rng.uniform(0.5, 2) * common.pick(rng, [-1, 1])))
    if form == 'cconst64':
        spec['b'] = float(int(rng.integers(1, 16)) / 8.0)
        spec['d'] = float(int(rng.integers(1, 16)) / 8.0 * common.pick(rng, [-1, 1]))
    if form == 'int':
        spec['b'] = float(common.pick(rng, [1, 2, -3, 7]))
    if form == 'cexp':
        spec['fc'] = float(min(10 ** rng.uniform(0, 4), 1e9 / tm))
    return spec


def _gen_noise(rng):
    return dict(type='noise', mean=float(common.pick(rng, [0.0, 0.0, 0.5, -3.0])),
                std=float(common.pick(rng, [1.0, 0.5, 3.0, 1.0, 0.25])), positional=bool(rng.random() < 0.5))


def _gen_sources(rng, comp, fs, fch1, asc, tmax, j):
    if comp == 'none':
        return []
    if comp == 'noise':
        nn, nc, nu = int(rng.integers(1, 4)), 0, 0
    elif comp == 'chirp':
        nn, nc, nu = 0, int(rng.integers(1, 4)), 0
    elif comp == 'custom':
        nn, nc, nu = 0, 0, int(rng.integers(1, 3))
    elif comp == 'noise+chirp':
        nn, nc, nu = int(rng.integers(1, 3)), int(rng.integers(1, 3)), 0
    elif comp == 'all':
        nn, nc, nu = int(rng.integers(1, 3)), int(rng.integers(1, 3)), int(rng.integers(1, 3))
    else:
        nn, nc, nu = int(rng.integers(0, 4)), int(rng.integers(0, 4)), int(rng.integers(0, 3))
    srcs = [_gen_noise(rng) for _ in range(nn)] + [_gen_chirp(rng, fs, fch1, asc, tmax, j + q) for q in range(nc)] + \
           [_gen_custom(rng, tmax, j + q) for q in range(nu)]
    order = rng.permutation(len(srcs))
    return [srcs[int(q)] for q in order]


def gen_cases(seed, tier):
    rng = np.random.default_rng([seed, 10])
    n = 1512 if tier == 'quick' else 181440
    cases = []
    for i in range(n):
        kind = KINDS[i % 3]
        j = i // 3
        asc = bool(common.stratum(j, 101, 2))
        comp = common.stratum(j, 102, COMP)
        t0c = common.stratum(j, 103, T0)
        hist = common.stratum(j, 104, HIST)
        pols = 2 if kind == 'ant2' else 1
        is_ant = kind != 'stream'
        fs = float(common.pick(rng, RATES)) if rng.random() < 0.85 else float(round(10 ** rng.uniform(4.7, 9.47), 3))
        t0 = {'default': 0, 'zero': 0, 'small': 1.5, 'kilo': 1e3, 'mega': 1e6, 'random': float(rng.uniform(0.01, 100)),
              'negative': -2.5}[t0c]
        if asc:
            fch1 = float(common.pick(rng, FCH1))
        else:
            ok = [f for f in FCH1 if f >= fs / 2]
            fch1 = float(common.pick(rng, ok))
        ops, tmax = _gen_history(rng, hist, is_ant, pols, fs, t0, tier)
        srcs = [_gen_sources(rng, comp, fs, fch1, asc, tmax, j + 3 * p) for p in range(pols)]
        for o in ops:
            if o[0] == 'addsrc':
                k = int(rng.integers(3))
                o.append(_gen_noise(rng) if k == 0 else (_gen_chirp(rng, fs, fch1, asc, tmax, j) if k == 1
                                                         else _gen_custom(rng, tmax, j)))
        if kind == 'stream':
            seedform = common.stratum(j, 105, ['int', 'int', 'none', 'generator'])
        else:
            seedform = common.stratum(j, 105, ['int', 'int', 'none'])
        cases.append(dict(kind=kind, asc=asc, t0_class=t0c, t0=t0, hist=hist, comp=comp, fs=fs, fch1=fch1,
                          fs_q=bool(rng.random() < 0.4), fch1_q=bool(rng.random() < 0.4), seedform=seedform,
                          seed=0 if common.stratum(j, 106, 10) == 0 else int(rng.integers(2 ** 31)), srcs=srcs, ops=ops))     # 0 is a seed
    cases.extend(_probe_cases(rng, tier))
    return cases


# ------------------------------------------------------------------------------------------ reference

def _frac(x):
    if isinstance(x, (int, np.integer)) and not isinstance(x, bool):
        return Fraction(int(x))
    return Fraction(float(x))


def _ld(fr):
    hi = float(fr)
    lo = float(fr - Fraction(hi))
    return LD(hi) + LD(lo)


def _ulp(x):
    return float(np.spacing(abs(float(x)))) if float(x) != 0 else 0.0


def _cos_sin_cycles(cyc, extra=0.0):
    """cos and sin of 2*pi*cyc + extra for an extended-precision number of cycles."""
    fr = cyc - np.floor(cyc)
    ang = (2 * LD(np.pi)) * fr + LD(extra)
    ang = ang.astype(np.float64)
    return np.cos(ang), np.sin(ang)


def make_custom(spec):
    """The user's source function (what is handed to add_signal)."""
    a, b, c, d = spec['a'], spec['b'], spec['c'], spec['d']
    form = spec['form']
    if form == 'ramp':
        return lambda ts: a * ts + b
    if form == 'cramp':
        return lambda ts: (a * ts + b) + 1j * (c * ts + d)
    if form == 'list':
        return lambda ts: [b + a * float(x) for x in ts]
    if form == 'clist':
        return lambda ts: [complex(b + a * float(x), d) for x in ts]
    if form == 'cconst64':
        return lambda ts: np.full(len(ts), b + 1j * d, dtype=np.complex64)
    if form == 'int':
        return lambda ts: np.full(len(ts), int(b), dtype=np.int64)
    if form == 'cexp':
        fc = spec['fc']
        return lambda ts: b * np.exp(2j * np.pi * (fc * ts))
    raise ValueError(form)


class RefStream:
    """Shadow of one polarisation stream, written from the property text."""

    def __init__(self, fs, fch1, asc, t0, gen_state):
        self.fs = float(fs)
        self.FS = Fraction(float(fs))
        self.fch1 = float(fch1)
        self.asc = bool(asc)
        self.T = _frac(t0)
        self.budget = 0.0           # allowed accumulated clock error since the last set_time
        self.start_obs = True
        self.sources = []
        self.cands = [copy.deepcopy(gen_state)]
        self.since_set = 0          # requests since construction / last clock operation

    # -- sources
    def add(self, spec):
        self.sources.append(spec)

    def kinds(self):
        ks = set()
        for s in self.sources:
            ks.add('custom' if s['type'] == 'custom' else s['type'])
        return [k for k in ('noise', 'chirp', 'custom') if k in ks]

    def expects_complex(self):
        return any(s['type'] == 'custom' and s['form'] in CUSTOM_COMPLEX for s in self.sources)

    def min_amp(self):
        amps = []
        for s in self.sources:
            if s['type'] == 'noise':
                amps.append(s['std'] if s['std'] > 0 else max(abs(s['mean']), 1.0))
            elif s['type'] == 'chirp':
                amps.append(abs(s['level']))
            else:
                amps.append(min(abs(s['b']), abs(s['d'])) if s['form'] in ('cramp', 'clist', 'cconst64') else abs(s['b']))
        return min(amps) if amps else 1.0

    # -- generator shadow
    @staticmethod
    def _gen(state):
        g = np.random.Generator(np.random.PCG64())
        g.bit_generator.state = copy.deepcopy(state)
        return g

    def _noise(self, state, n):
        g = self._gen(state)
        total = np.zeros(n)
        absum = np.zeros(n)
        for s in self.sources:
            if s['type'] == 'noise':
                term = s['mean'] + s['std'] * g.standard_normal(size=n)
                total = total + term
                absum = absum + np.abs(term)
        return total, absum, g.bit_generator.state

    def internal_request(self, m):
        """update_noise: generator either advanced by one request of m samples, or untouched."""
        new = []
        for st in self.cands:
            _, _, after = self._noise(st, m)
            for cand in (after, st):
                if not any(cand['state'] == o['state'] for o in new):
                    new.append(cand)
        self.cands = new[:32]

    # -- time
    def time_bound(self, n):
        t_end = self.T + Fraction(n) / self.FS
        tmax = max(abs(float(self.T)), abs(float(t_end)))
        return self.budget + 6 * _ulp(tmax), tmax

    def times(self, n):
        return _ld(self.T) + np.arange(n, dtype=LD) / LD(self.fs)

    def advance(self, n):
        t_end = self.T + Fraction(n) / self.FS
        self.budget += 2 * _ulp(max(abs(float(self.T)), abs(float(t_end))))
        self.T = t_end
        self.start_obs = False
        self.since_set += 1

    def clock_bound(self):
        return self.budget + 4 * _ulp(float(self.T))

    # -- expected voltages of a request (before advance)
    def signals(self, n):
        """Deterministic part: returns (value, bound, abs-sum, sensitivity counters)."""
        t = self.times(n)
        tb, tmax = self.time_bound(n)
        cplx = self.expects_complex()
        val = np.zeros(n, dtype=complex if cplx else float)
        bound = np.zeros(n)
        absum = np.zeros(n)
        sens = dict(drift=None, fch1=None, sign=None)
        for s in self.sources:
            if s['type'] == 'chirp':
                df = LD(s['f']) - LD(self.fch1)
                d = LD(s['drift'])
                cyc = df * t + d * t * t / 2
                ph = 0.0 if s['phase'] is None else s['phase']
                cs, _ = _cos_sin_cycles(cyc, ph if self.asc else -ph)
                term = s['level'] * cs
                rate = 2 * math.pi * (abs(float(df)) + abs(s['drift']) * tmax)
                total_phase = 2 * math.pi * (abs(float(df)) * tmax + abs(s['drift']) * tmax ** 2 / 2) + abs(ph)
                bound = bound + abs(s['level']) * (rate * tb + 8 * EPS * total_phase + 8 * EPS)
                tf = np.abs(t).astype(float)
                m = np.abs(s['drift']) * tf ** 2 / 4 >= 0.01      # dropping the 1/2 moves the phase by >= 0.02 cycles
                sens['drift'] = m if sens['drift'] is None else (sens['drift'] | m)
                m = abs(self.fch1) * tf >= 0.01
                sens['fch1'] = m if sens['fch1'] is None else (sens['fch1'] | m)
                if not self.asc and abs(math.sin(ph)) > 0.05:
                    m = np.abs(np.sin(2 * np.pi * (cyc - np.floor(cyc)).astype(float))) > 0.05
                    sens['sign'] = m if sens['sign'] is None else (sens['sign'] | m)
            elif s['type'] == 'custom':
                a, b, c, d = s['a'], s['b'], s['c'], s['d']
                form = s['form']
                if form in ('ramp', 'list'):
                    term = (LD(a) * t + LD(b)).astype(float)
                    bound = bound + abs(a) * tb + 4 * EPS * (abs(a) * tmax + abs(b))
                elif form == 'cramp':
                    term = (LD(a) * t + LD(b)).astype(float) + 1j * (LD(c) * t + LD(d)).astype(float)
                    bound = bound + (abs(a) + abs(c)) * tb + 4 * EPS * ((abs(a) + abs(c)) * tmax + abs(b) + abs(d))
                elif form == 'clist':
                    term = (LD(a) * t + LD(b)).astype(float) + 1j * d
                    bound = bound + abs(a) * tb + 4 * EPS * (abs(a) * tmax + abs(b) + abs(d))
                elif form == 'cconst64':
                    term = np.full(n, complex(b, d))
                elif form == 'int':
                    term = np.full(n, float(int(b)))
                elif form == 'cexp':
                    cs, sn = _cos_sin_cycles(LD(s['fc']) * t)
                    term = b * (cs + 1j * sn)
                    w = 2 * math.pi * s['fc']
                    bound = bound + abs(b) * (w * tb + 8 * EPS * w * tmax + 8 * EPS)
                else:
                    raise ValueError(form)
            else:
                continue
            val = val + term
            absum = absum + np.abs(term)
        return val, bound, absum, sens, tb


# ------------------------------------------------------------------------------------------ driving the real objects

def _q(u, v, on):
    if not on:
        return v
    if v != 0 and v % 1e6 == 0:
        return (v / 1e6) * u.MHz          # integer number of MHz: the conversion is exact
    return v * u.Hz


def _build(stg, u, c, seed_obj):
    # the orientation flag as callers compute it: a Python bool, or the numpy bool of a comparison such as `chan_bw > 0`
    asc_form = c['seed'] % 3 if isinstance(c.get('seed'), int) else 0
    asc_arg = c['asc'] if asc_form == 0 else (np.bool_(c['asc']) if asc_form == 1 else (np.float64(1.0 if c['asc'] else -1.0) > 0))
    kw = dict(sample_rate=_q(u, c['fs'], c['fs_q']), fch1=_q(u, c['fch1'], c['fch1_q']), ascending=asc_arg, seed=seed_obj)
    if c['t0_class'] != 'default':
        kw['t_start'] = c['t0']
    if c['kind'] == 'stream':
        obj = stg.voltage.DataStream(**kw)
        return obj, [obj]
    obj = stg.voltage.Antenna(num_pols=2 if c['kind'] == 'ant2' else 1, **kw)
    streams = [obj.x] + ([obj.y] if c['kind'] == 'ant2' else [])
    return obj, streams


def _add_source(u, stream, spec):
    if spec['type'] == 'noise':
        if spec.get('positional'):
            stream.add_noise(spec['mean'], spec['std'])
        else:
            stream.add_noise(v_mean=spec['mean'], v_std=spec['std'])
    elif spec['type'] == 'chirp':
        kw = dict(f_start=spec['f'], drift_rate=spec['drift'], level=spec['level'])
        if spec['units']:
            form = int(abs(spec['f'])) % 3
            if form == 0:
                kw['f_start'] = spec['f'] * u.Hz
                kw['drift_rate'] = spec['drift'] * u.Hz / u.s
            else:
                # other units than the base ones; the reference works with the value the conversion yields (the spec is updated)
                qf = (spec['f'] / 1e6) * u.MHz if form == 1 else (spec['f'] / 1e9) * u.GHz
                qd = (spec['drift'] / 1e3) * u.kHz / u.s if form == 1 else (spec['drift'] * 60.0) * u.Hz / u.min
                spec['f'] = float(qf.to(u.Hz).value)
                spec['drift'] = float(qd.to(u.Hz / u.s).value)
                kw['f_start'], kw['drift_rate'] = qf, qd
        if spec['phase'] is not None:
            kw['phase'] = spec['phase']
        stream.add_constant_signal(**kw)
    else:
        stream.add_signal(make_custom(spec))


def _seed_obj(c):
    if c['seedform'] == 'none':
        return None
    if c['seedform'] == 'generator':
        return np.random.default_rng(c['seed'])
    return c['seed']


def _clockval(x):
    """Observed clock as an exact rational (None if it is not a real number)."""
    try:
        if isinstance(x, (int, np.integer)) and not isinstance(x, bool):
            return Fraction(int(x))
        f = float(x)
        if not math.isfinite(f):
            return None
        return Fraction(f)
    except Exception:
        return None


def _compare(obs, want, bound):
    """first offending index or None; NaN/Inf offend."""
    err = np.abs(np.asarray(obs) - want)
    bad = ~(err <= bound)
    return err, bad


def _probe_cases(rng, tier):
    out = []
    for i in range(120 if tier == 'quick' else 6000):
        out.append(dict(kind='probe', what=['desync-reset', 'desync-add', 'desync-set', 'same-callable-twice'][i % 4],
                        fs=float(common.pick(rng, [48000.0, 1e6, 2.4e9, 3e9])), asc=bool((i // 4) % 2),
                        t0=float(common.pick(rng, [0.0, 1.5, 1e3])), n1=int(rng.integers(1, 400)), m=int(rng.integers(1, 300)),
                        n2=int(rng.integers(2, 400)), dt_add=float(common.pick(rng, [0.25, 1e-3, 7.0])), reps=int(rng.integers(2, 4)),
                        pols=int(1 + (i // 8) % 2), off=float(rng.uniform(0.05, 0.4)), drift_frac=float(rng.uniform(-1, 1)),
                        sub=int(rng.integers(2 ** 31))))
    return out


def run_probe(c, R):
    """Histories the main workload does not contain: one polarisation stream of an antenna sampled on its own before a clock
    operation on the antenna; the very same callable registered several times as a custom source."""
    stg = common.import_setigen()
    v = stg.voltage
    R.bucket('probe:' + c['what'])
    fs = c['fs']
    fch1 = 1e9
    sgn = 1.0 if c['asc'] else -1.0

    def furnish(a):
        for k, st in enumerate(a.streams):
            st.add_constant_signal(f_start=fch1 + sgn * c['off'] * fs / 2 * (1 + 0.1 * k), drift_rate=c['drift_frac'] * fs * 1e-3,
                                   level=1.0 + k, phase=0.3 * (k + 1))
    if c['what'] == 'same-callable-twice':
        st = v.DataStream(sample_rate=fs, fch1=fch1, ascending=c['asc'], t_start=c['t0'], seed=c['sub'])
        table = np.random.default_rng(c['sub']).normal(size=c['n1'] + c['n2'] + 5)

        def src(ts, _t0=c['t0']):
            k = np.rint((np.asarray(ts) - _t0) * fs).astype(int)
            return table[np.clip(k, 0, len(table) - 1)]
        for _ in range(c['reps']):
            st.add_signal(src)
        got = np.concatenate([np.asarray(st.get_samples(c['n1'])), np.asarray(st.get_samples(c['n2']))])
        want = c['reps'] * table[:c['n1'] + c['n2']]
        R.check(got.shape == want.shape and bool(np.all(np.abs(got - want) <= 1e-12 * np.maximum(1.0, np.abs(want)))),
                'custom-source-registered-several-times-not-summed-each-time', reps=c['reps'],
                ratio=float(np.median(got / np.where(want == 0, 1, want))))
        R.mark_nontrivial(True)
        return
    ant = v.Antenna(sample_rate=fs, fch1=fch1, ascending=c['asc'], num_pols=c['pols'], t_start=c['t0'], seed=c['sub'])
    furnish(ant)
    ant.get_samples(c['n1'])
    ant.x.get_samples(c['m'])                    # one polarisation read on its own: its clock runs ahead of the antenna's
    if c['what'] == 'desync-reset':
        ant.reset_start()
        t_exp = c['t0'] + c['n1'] / fs
    elif c['what'] == 'desync-add':
        ant.add_time(c['dt_add'])
        t_exp = c['t0'] + c['n1'] / fs + c['dt_add']
    else:
        t_exp = c['t0'] + 12.5
        ant.set_time(t_exp)
    tol = 8 * np.spacing(abs(t_exp) + 1.0)
    R.check(abs(float(ant.t_start) - t_exp) <= tol, 'clock:antenna:after-clock-op-following-a-direct-stream-request',
            got=float(ant.t_start), want=t_exp)
    for k, st in enumerate(ant.streams):
        R.check(abs(float(st.t_start) - float(ant.t_start)) <= tol,
                'antenna-clock-differs-from-streams:after-clock-op-following-a-direct-stream-request', pol=k,
                stream=float(st.t_start), antenna=float(ant.t_start), op=c['what'])
    out = np.asarray(ant.get_samples(c['n2']))
    fresh = v.Antenna(sample_rate=fs, fch1=fch1, ascending=c['asc'], num_pols=c['pols'], t_start=float(ant.t_start) - c['n2'] / fs, seed=c['sub'])
    furnish(fresh)
    ref_out = np.asarray(fresh.get_samples(c['n2']))
    # same closed form evaluated at (nearly) the same instants by a fresh antenna started at the antenna's clock
    slack = 2 * np.pi * (c['off'] * fs / 2 * 1.2 + abs(c['drift_frac']) * fs * 1e-3 * (abs(t_exp) + 1)) * 16 * np.spacing(abs(t_exp) + 1.0) * 3 + 1e-9
    R.check(out.shape == ref_out.shape and bool(np.all(np.abs(out - ref_out) <= slack)),
            'samples-after-clock-op-following-a-direct-stream-request-on-wrong-timeline', op=c['what'],
            maxerr=float(np.max(np.abs(out - ref_out))) if out.shape == ref_out.shape else None, slack=slack)
    R.mark_nontrivial(True)


def run_case(c, R):
    if c['kind'] == 'probe':
        return run_probe(c, R)
    stg = common.import_setigen()
    from astropy import units as u
    if np.finfo(LD).eps > 1e-18:
        raise RuntimeError('extended precision unavailable: the reference needs an 80-bit long double')
    kind = c['kind']
    is_ant = kind != 'stream'
    pols = 2 if kind == 'ant2' else 1
    fs = c['fs']
    R.bucket('kind:' + kind)
    R.bucket('orient:asc' if c['asc'] else 'orient:desc')
    R.bucket('t0:' + c['t0_class'])
    R.bucket('hist:' + c['hist'])
    R.bucket('comp:' + c['comp'])
    R.bucket('seed:' + c['seedform'])
    if c['fs_q'] or c['fch1_q']:
        R.bucket('units:quantity')

    obj, streams = _build(stg, u, c, _seed_obj(c))
    init_states = [copy.deepcopy(streams[p].rng.bit_generator.state) for p in range(pols)]
    refs = [RefStream(fs, c['fch1'], c['asc'], c['t0'], init_states[p]) for p in range(pols)]

    def note_source(spec):
        if spec['type'] == 'custom':
            R.bucket('custom:complex' if spec['form'] in CUSTOM_COMPLEX else 'custom:real')
        if spec['type'] == 'chirp':
            if spec['phase'] is None:
                R.bucket('chirp:phase-omitted')
            if spec['units']:
                R.bucket('units:quantity')
            R.bucket('drift:zero' if spec['drift'] == 0 else ('drift:neg' if spec['drift'] < 0 else 'drift:pos'))

    for p in range(pols):
        for spec in c['srcs'][p]:
            _add_source(u, streams[p], spec)
            refs[p].add(spec)
            note_source(spec)

    def clock_objects():
        out = [('stream-' + 'xy'[p], streams[p], refs[p]) for p in range(pols)]
        if is_ant:
            out.append(('antenna', obj, refs[0]))
        return out

    def check_flags(after, want):
        for name, o, _ in clock_objects():
            who = 'antenna' if name == 'antenna' else 'stream'
            R.check(bool(o.start_obs) == want and isinstance(o.start_obs, (bool, np.bool_)),
                    f'start-obs-flag:{who}:after-{after}', got=repr(o.start_obs), want=want)

    def check_antenna_sync(after):
        if not is_ant:
            return
        a = _clockval(obj.t_start)
        for p in range(pols):
            s = _clockval(streams[p].t_start)
            tol = refs[p].clock_bound()
            ok = a is not None and s is not None and abs(a - s) <= Fraction(tol)
            R.check(ok, f'antenna-clock-differs-from-streams:after-{after}', antenna=repr(obj.t_start),
                    stream=repr(streams[p].t_start), pol=p, tol=tol)
            R.count('antenna_clock_checks')

    def check_clock_vs_ref(after):
        for name, o, ref in clock_objects():
            who = 'antenna' if name == 'antenna' else 'stream'
            got = _clockval(o.t_start)
            tol = ref.clock_bound()
            err = None if got is None else abs(got - ref.T)
            R.check(err is not None and err <= Fraction(tol), f'clock:{who}:after-{after}', got=repr(o.t_start),
                    want=float(ref.T), err=None if err is None else float(err), tol=tol, obj=name)
            R.count('clock_checks')
            if err is not None and tol > 0:
                R.maximum('clock_err_over_bound', float(err) / tol)

    # construction
    for name, o, ref in clock_objects():
        who = 'antenna' if name == 'antenna' else 'stream'
        R.check(_clockval(o.t_start) == ref.T, f'clock:{who}:at-construction', got=repr(o.t_start), want=float(ref.T))
    check_flags('construction', True)

    # single-request twin for the noise clause: same construction, same seed, only the noise sources; it answers ONE
    # request per stretch of the history between events that change the noise configuration (update_noise, a noise
    # source added mid-way). Noise does not depend on the clock, so clock operations are irrelevant for the twin.
    noise_ref = None
    any_noise = any(s_['type'] == 'noise' for p in range(pols) for s_ in c['srcs'][p]) or \
        any(o[0] == 'addsrc' and o[2]['type'] == 'noise' for o in c['ops'])
    if any_noise:
        objT, streamsT = _build(stg, u, c, _seed_obj(c))
        if c['seedform'] == 'none':
            for p in range(pols):
                streamsT[p].rng.bit_generator.state = copy.deepcopy(init_states[p])
        for p in range(pols):
            for spec in c['srcs'][p]:
                if spec['type'] == 'noise':
                    _add_source(u, streamsT[p], spec)
        parts = [[] for _ in range(pols)]
        pending = 0

        def flush():
            nonlocal pending
            if pending:
                o2 = objT.get_samples(pending)
                for p in range(pols):
                    parts[p].append(np.array(o2[0, p] if is_ant else o2, copy=True))
                R.count('twin_requests')
            pending = 0

        for op in c['ops']:
            if op[0] == 'get':
                pending += int(op[1])
            elif op[0] == 'upd':
                flush()
                if op[2] is None:
                    streamsT[int(op[1])].update_noise()
                else:
                    streamsT[int(op[1])].update_noise(stats_calc_num_samples=op[2])
            elif op[0] == 'addsrc' and op[2]['type'] == 'noise':
                flush()
                _add_source(u, streamsT[int(op[1])], op[2])
        flush()
        noise_ref = [np.concatenate(parts[p]) if parts[p] else np.zeros(0) for p in range(pols)]
    noise_off = [0] * pols
    chunk_reported = [False] * pols
    for p in range(pols):
        nn = sum(1 for s_ in c['srcs'][p] if s_['type'] == 'noise')
        if nn:
            R.bucket('noise:several-sources' if nn >= 2 else 'noise:one-source')

    returned = [[] for _ in range(pols)]       # (reference to returned array, copy) per request
    nreq = 0
    decidable_any = False

    for op in c['ops']:
        code = op[0]
        if code == 'get':
            n = int(op[1])
            nreq += 1
            R.count('requests')
            if n == 1:
                R.bucket('request:size-1')
            pos = ['first-request' if r.since_set == 0 else 'continued-request' for r in refs]
            if refs[0].since_set > 0:
                R.count('continued_requests')
            out = obj.get_samples(n)
            if is_ant:
                shape_ok = isinstance(out, np.ndarray) and out.shape == (1, pols, n)
                R.check(shape_ok, 'return-shape:antenna', shape=list(np.shape(out)), want=[1, pols, n])
                if not shape_ok:
                    return
                vs = [out[0, p] for p in range(pols)]
            else:
                shape_ok = isinstance(out, np.ndarray) and out.shape == (n,)
                R.check(shape_ok, 'return-shape:stream', shape=list(np.shape(out)), want=[n])
                if not shape_ok:
                    return
                vs = [out]
            for p in range(pols):
                ref = refs[p]
                # times of the request
                tb, tmax = ref.time_bound(n)
                ts_obs = getattr(streams[p], 'ts', None)
                if not (isinstance(ts_obs, np.ndarray) and ts_obs.shape == (n,)):
                    R.violate('ts-shape', shape=list(np.shape(ts_obs)), want=[n])
                else:
                    terr = np.abs(ts_obs.astype(LD) - ref.times(n)).astype(float)
                    k = int(np.argmax(~(terr <= tb))) if np.any(~(terr <= tb)) else None
                    R.check(k is None, 'ts-grid:' + pos[p], k=k, n=n, got=None if k is None else float(ts_obs[k]),
                            want=None if k is None else float(ref.T + Fraction(k) / ref.FS),
                            err=None if k is None else float(terr[k]), bound=tb, sample_rate=repr(streams[p].sample_rate))
                    if tb > 0:
                        R.maximum('ts_err_over_bound', float(np.max(terr)) / tb)
                # voltages: deterministic part from the reference, noise from the single-request twin
                sig, sbound, sabs, sens, _ = ref.signals(n)
                kinds = ref.kinds()
                has_noise = 'noise' in kinds
                tw = noise_ref[p][noise_off[p]:noise_off[p] + n] if noise_ref is not None else np.zeros(n)
                if len(tw) != n:
                    raise RuntimeError('twin noise timeline shorter than the history')
                noise_off[p] += n
                want = tw + sig
                bound = sbound + 8 * EPS * (np.abs(tw) + sabs) + 1e-300
                err, bad = _compare(vs[p], want, bound)
                dec = bound <= DECIDE * ref.min_amp()
                nb = int(np.count_nonzero(bad & dec))
                if has_noise:
                    R.count('twin_noise_samples', n)
                    # attribution shadow: all noise sources drawing from one shared generator, per request, per source
                    sh = None
                    keep = []
                    for st in ref.cands:
                        noise, nabs, after = ref._noise(st, n)
                        e2, b2 = _compare(vs[p], noise + sig, sbound + 8 * EPS * (nabs + sabs) + 1e-300)
                        n2 = int(np.count_nonzero(b2 & dec))
                        if sh is None or n2 < sh[0]:
                            sh = (n2, noise + sig, e2, b2, after)
                        if n2 == 0:
                            keep.append(after)      # an undecidable request cannot tell the candidates apart: keep all
                    ref.cands = keep or [sh[4]]
                    if nb and sh[0] == 0:
                        # the samples are those of a generator shared by the sources and consumed request by request:
                        # they depend on how the requests were chunked
                        nn = sum(1 for s_ in ref.sources if s_['type'] == 'noise')
                        if not chunk_reported[p]:
                            k = int(np.argmax(bad & dec))
                            R.violate('noise-depends-on-request-chunking:' + ('several-noise-sources-share-the-stream-generator'
                                                                               if nn >= 2 else 'single-noise-source'),
                                      k=k, n=n, request=nreq, pol=p, noise_sources=nn, got=complex(vs[p][k]),
                                      single_request_value=complex(want[k]), nbad=nb)
                            chunk_reported[p] = True
                        nb, want, err, bad = 0, sh[1], sh[2], sh[3]
                    elif not chunk_reported[p]:
                        R.check(True, 'noise-depends-on-request-chunking')
                desc = (not c['asc']) and 'chirp' in kinds
                vkey = 'samples-differ:' + ('+'.join(kinds) if kinds else 'no-source') + (':descending' if desc else '') \
                       + ':' + pos[p]
                if ref.expects_complex():
                    iscx = np.iscomplexobj(vs[p])
                    R.check(iscx, 'complex-source-imaginary-part-lost', dtype=str(vs[p].dtype))
                    if iscx:
                        R.count('imag_samples_checked', int(np.count_nonzero(dec)))
                swapped = False
                if nb and pols == 2:
                    # x, y order: does the other polarisation's expectation fit instead?
                    q = 1 - p
                    sig2, sb2, sa2, _, _ = refs[q].signals(n)
                    tw2 = noise_ref[q][noise_off[p] - n:noise_off[p]] if noise_ref is not None else np.zeros(n)
                    if len(tw2) == n and refs[q].sources:
                        _, bad2 = _compare(vs[p], tw2 + sig2, sb2 + 8 * EPS * (np.abs(tw2) + sa2) + 1e-300)
                        swapped = not np.any(bad2)
                if swapped:
                    R.violate('antenna-polarisations-not-in-x-y-order', pol=p)
                else:
                    k = int(np.argmax(bad & dec)) if nb else None
                    R.check(nb == 0, vkey, k=k, n=n, request=nreq, nbad=nb, pol=p,
                            got=None if k is None else complex(vs[p][k]), want=None if k is None else complex(want[k]),
                            bound=None if k is None else float(bound[k]), t=float(ref.T))
                nd = int(np.count_nonzero(dec))
                R.count('samples_decidable', nd)
                R.count('samples_undecidable', n - nd)
                for kk in kinds:
                    R.count(kk + '_samples_decidable', nd)
                if sens['drift'] is not None:
                    R.count('drift_sensitive_samples', int(np.count_nonzero(sens['drift'] & dec)))
                if sens['fch1'] is not None:
                    R.count('fch1_sensitive_samples', int(np.count_nonzero(sens['fch1'] & dec)))
                if sens['sign'] is not None:
                    R.count('phase_sign_sensitive_samples', int(np.count_nonzero(sens['sign'] & dec)))
                if nd and kinds:
                    decidable_any = True
                if nd:
                    R.maximum('v_err_over_bound', float(np.max(np.where(dec, err / bound, 0))))
                returned[p].append((vs[p], np.array(vs[p], copy=True)))
            for ref in refs:
                ref.advance(n)
            check_clock_vs_ref('request')
            check_flags('request', False)
            check_antenna_sync('request')
        elif code in ('set', 'setcur'):
            R.bucket('op:set_time')
            t = op[1] if code == 'set' else obj.t_start
            obj.set_time(t)
            for r in refs:
                r.T = _frac(t)
                r.budget = 0.0
                r.start_obs = True
                r.since_set = 0
            for name, o, ref in clock_objects():
                who = 'antenna' if name == 'antenna' else 'stream'
                R.check(_clockval(o.t_start) == _frac(t), f'clock:{who}:after-set_time', got=repr(o.t_start), want=repr(t))
                R.count('clock_checks')
            check_flags('set_time', True)
            check_antenna_sync('set_time')
        elif code == 'add':
            R.bucket('op:add_time')
            t = op[1]
            before = [(_clockval(o.t_start)) for _, o, _ in clock_objects()]
            obj.add_time(t)
            for r in refs:
                old = r.T
                r.T = r.T + _frac(t)
                r.budget += _ulp(max(abs(float(old)), abs(float(r.T))))
                r.since_set = 0
            for (name, o, ref), b in zip(clock_objects(), before):
                who = 'antenna' if name == 'antenna' else 'stream'
                got = _clockval(o.t_start)
                if o is obj and b is not None and got is not None:     # the object asked; its streams: bound vs reference below
                    want = b + _frac(t)
                    tol = max(_ulp(float(want)), _ulp(float(b)))
                    R.check(abs(got - want) <= Fraction(tol), f'clock:{who}:after-add_time:not-old-plus-t', got=repr(o.t_start),
                            before=float(b), t=t, want=float(want))
            check_clock_vs_ref('add_time')
            check_flags('add_time', True)
            check_antenna_sync('add_time')
        elif code == 'reset':
            R.bucket('op:reset_start')
            before = [(_clockval(o.t_start)) for _, o, _ in clock_objects()]
            obj.reset_start()
            for r in refs:
                r.since_set = 0
            for (name, o, ref), b in zip(clock_objects(), before):
                who = 'antenna' if name == 'antenna' else 'stream'
                if o is obj:        # the object asked; its streams are compared with the reference within the clock bound
                    R.check(_clockval(o.t_start) == b, f'clock:{who}:changed-by-reset_start', got=repr(o.t_start),
                            before=None if b is None else float(b))
                    R.count('clock_checks')
            check_clock_vs_ref('reset_start')
            check_flags('reset_start', True)
            check_antenna_sync('reset_start')
        elif code == 'upd':
            R.bucket('op:update_noise')
            p, m = int(op[1]), op[2]
            before = [(_clockval(o.t_start), bool(o.start_obs)) for _, o, _ in clock_objects()]
            if m is None:
                streams[p].update_noise()
            else:
                streams[p].update_noise(stats_calc_num_samples=m)
            mm = 10000 if m is None else int(m)
            refs[p].internal_request(mm)
            for (name, o, ref), (b, f) in zip(clock_objects(), before):
                who = 'antenna' if name == 'antenna' else 'stream'
                got = _clockval(o.t_start)
                tolu = 0.0 if b is None else 2 * _ulp(abs(float(b)) + mm / fs)      # restored, not necessarily bit for bit
                ok = got is not None and b is not None and abs(got - b) <= Fraction(tolu)
                R.check(ok, f'clock:{who}:changed-by-update_noise', got=repr(o.t_start), before=None if b is None else float(b))
                if ok and got != b and name != 'antenna':
                    ref.budget += tolu
                R.check(bool(o.start_obs) == f, f'start-obs-flag:{who}:changed-by-update_noise', got=repr(o.start_obs), before=f)
                R.count('clock_checks')
            check_antenna_sync('update_noise')
        elif code == 'addsrc':
            R.bucket('op:add-source-midway')
            p, spec = int(op[1]), op[2]
            _add_source(u, streams[p], spec)
            refs[p].add(spec)
            note_source(spec)
        else:
            raise ValueError(code)

    # arrays handed out earlier must still hold what they held when returned
    for p in range(pols):
        same = all(np.array_equal(a, b, equal_nan=True) for a, b in returned[p])
        R.check(same, 'returned-array-changed-by-later-call', pol=p)

    if nreq >= 2:
        R.bucket('requests>=2')

    R.mark_nontrivial(nreq >= 2 and decidable_any)


MANIFEST = {
    'text': 'Runtime monitoring: every get_samples / set_time / add_time / reset_start / update_noise step of stratified random '
            'histories on DataStream and Antenna objects is followed by post-conditions against an independent per-stream shadow '
            '(exact rational clock, extended-precision sample times, closed-form chirp with orientation sign, same-seed generator '
            'consumed per request and noise source, custom sources incl. complex), plus x/y stacking, antenna-vs-stream clock '
            'agreement and a twin that answers one request of the total length. Held = no monitor fired on the executions '
            'produced; exploration, not proof.',
    'note': '; '.join(ASSUMPTIONS),
    'technique': 'runtime post-condition monitors with shadow reference model (R-STREAM) and chunked-vs-single differential twin',
}
