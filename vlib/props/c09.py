"""C09 -- quantisers: monotone affine maps into the signed b-bit range, stated refresh schedule.

Monitor: post-conditions on every call of RealQuantizer.quantize / digitize, ComplexQuantizer.quantize,
quantize_real and quantize_complex of a stratified call-history workload.  A shadow automaton (R-QUANT,
written from the property text) keeps, per real quantiser, the call counter, the refresh schedule and the
statistics of the window that is in force; every output is compared with the interval
[round-(v-b), round+(v+b)] of the affine formula evaluated with the shadow's statistics, b being a derived
first-order bound on the float64 evaluation error of the code under test.  Range, integrality, monotonicity
(on the real input/output pairs), the zero-variance clause, the cached statistics and the independence of
the two parts of a complex quantiser are separate checks with their own mechanism keys.
"""
import math
import warnings
import importlib
import numpy as np

from .. import common

ID = 'C09'
LEVEL = 'exploration'
RULE = ('stratified: API {RealQuantizer, ComplexQuantizer, quantize_real, quantize_complex} x bit width 2..8 x refresh '
        'period {-5,-1,0,1,2,3,7} x statistics-window class {1, 10, len-1, len, 1e4}; random target mean in [-3,3] / FWHM '
        '1..200, call histories of 1..30 calls with interleaved _reset_cache and _set_target_stats, consecutive inputs '
        'with very different mean/deviation, input families {gaussian, uniform, bimodal, heavy tail, ramp, lattice, '
        'half-integer lattice, constant, near-constant} at scales 1e-120..1e120 (1e+-200 for range/monotonicity only), '
        '1-D and 2-D, lengths 1..1e5, custom deviation none / scalar / pair (list, tuple, array); every fifth '
        'configuration mixes constant inputs in; non-trivial = at least one call whose expected output is decided '
        'exactly on elements with >= 2 distinct values; distinct = distinct case descriptor')
ASSUMPTIONS = [
    'statistics of a call = population mean / standard deviation of the first min(N, len) entries along axis 0 of that '
    "call's input (all columns of those rows for 2-D input); the reference computes them with exactly rounded sums (math.fsum)",
    'the code under test may evaluate mean and deviation in float64 with pairwise summation: mean error <= (32 [+ rows for '
    '2-D]) * eps * max|window|, relative deviation error <= 64 eps + (mean error / deviation)^2; the pre-rounding value may '
    'therefore deviate by b = f*em + |f (x-m)|*(rho + 4 eps) + 4 eps (|v|+|tm|) and any integer in '
    '[ceil(v-b-1/2), floor(v+b+1/2)] (clipped) is accepted -- in particular either neighbour at an exact tie ("round" does not '
    'fix the tie rule)',
    'zero-variance clause: judged when no custom deviation is supplied, the statistics window in force is exactly constant '
    '(max == min) and the current input is exactly constant; then every output must be round(target mean) clipped. A constant '
    'window in force with a NON-constant input (division by a zero deviation) is not specified by the property and only '
    'range / integrality / monotonicity are judged there',
    '"without NaN or overflow": the output is in range (a NaN cast to int is not) and no overflow / invalid-value floating '
    'point warning is raised while quantising a zero-variance input',
    'the affine clause is judged only when the squares of the deviations of the window are representable '
    '(1e-150 < max|x - mean| < 1e150); outside that band only range / integrality / monotonicity are judged',
    'target deviation = FWHM / (2 sqrt(2 ln 2)); _set_target_stats(mean, deviation) replaces both targets and leaves the '
    'schedule alone; _reset_cache restarts the schedule (next call is call 0)',
    'quantize_real(data_std=..., data_mean=None) is outside the stated behaviour and not exercised; custom deviation 0 is '
    'not exercised',
]

EPS = float(np.finfo(np.float64).eps)
FWHM_PER_STD = 2.0 * math.sqrt(2.0 * math.log(2.0))
PERIODS = [-5, -1, 0, 1, 2, 3, 7]
NCLASSES = ['one', 'ten', 'len-1', 'len', '1e4']
APIS = ['real', 'complex', 'real', 'complex', 'func_real', 'func_complex']
DISTS = ['gauss', 'uniform', 'bimodal', 'heavy', 'ramp', 'lattice']
CONSTS = [0.0, 0.1, 0.7, 3.0, -0.1, 1.0 / 3.0, 123456.789, 1e300, -1e300, 1e-300, -1e-300, 1e-5]
SCALE_CLASSES = [('unit', 0.0), ('unit', 0.0), ('unit', 0.0), ('small', -6.0), ('large', 6.0), ('tiny', -120.0),
                 ('huge', 120.0), ('extreme', 200.0), ('extreme', -200.0)]
LENGTHS_Q = [1, 2, 3, 7, 33, 100, 100, 1000, 1000, 4096, 10001, 10001, 30000]
LENGTHS_T = LENGTHS_Q + [50000, 100000]


# ------------------------------------------------------------------------------------------------ workload

def required(tier):
    b = {f'api:{a}': 40 for a in set(APIS)}
    b.update({f'bits:{k}': 40 for k in range(2, 9)})
    b.update({f'period:{p}': 40 for p in PERIODS})
    b.update({f'window:{k}': 40 for k in NCLASSES})
    b.update({f'dist:{d}': 100 for d in DISTS})
    b.update({'same-buffer-object-refilled-between-calls': 100, 'real-api:integer-dtype-input:int8': 100, 'real-api:integer-dtype-input:int16': 20, 'real-api:integer-dtype-input:int64': 40})
    b.update({'dist:const': 100, 'dist:nearconst': 20, 'dist:halfint': 10, 'ndim:2': 100, 'len:1': 20,
              'custom:none': 500, 'custom:scalar': 100, 'custom:pair': 50, 'explicit-stats': 50,
              'op:reset': 100, 'op:rejected-call-before-the-first-quantised-block': 60, 'op:reset-mid-period': 40, 'op:set_target': 100, 'alias:digitize': 20,
              'scale:tiny': 50, 'scale:huge': 50, 'scale:extreme': 50, 'tail:scaled': 100, 'tail:last': 50,
              'call:refresh': 1000, 'call:cached': 1000, 'call:cached:period<=0': 200, 'call:refresh:later-period': 200,
              'zero-variance-judged': 50, 'twin:imag-replaced': 20, 'twin:real-replaced': 20,
              'clip:top-reached': 200, 'clip:bottom-reached': 200, 'complex-api:real-dtype-input': 100})
    return {'buckets': b,
            'counters': {'calls': 8000, 'elements_decided_exactly': 2_000_000, 'elements_tie_or_band': 100,
                         'monotone_pairs': 2_000_000, 'cache_checks': 1000},
            'checks': 40000, 'nontrivial': 1000}


def _gen_part(rng, scale0, zv, prev):
    """One real-valued input descriptor (distribution, location, scale, seed)."""
    if zv and rng.random() < 0.55:
        dist = 'const' if rng.random() < 0.8 else 'nearconst'
        loc = float(common.pick(rng, CONSTS))
        return dict(dist=dist, loc=loc, scale=abs(loc) if loc else 1.0, seed=int(rng.integers(2 ** 31)))
    dist = DISTS[int(rng.integers(len(DISTS)))]
    for _ in range(8):
        scale = scale0 * 10 ** float(rng.uniform(-1.5, 1.5))
        r = rng.random()
        if r < 0.35:
            k = 0.0
        elif r < 0.9:
            k = float(common.pick(rng, [1, -1, 5, -5, 50, -50, 0.3, -2.5]))
        else:
            k = float(common.pick(rng, [1e6, -1e6, 1e4]))
        loc = k * scale
        if prev is None or abs(math.log10(scale / prev['scale'])) >= 0.3 or abs(loc - prev['loc']) >= 2 * max(scale, prev['scale']):
            break
    return dict(dist=dist, loc=float(loc), scale=float(scale), seed=int(rng.integers(2 ** 31)))


def gen_cases(seed, tier):
    rng = np.random.default_rng([seed, 9])
    n = 2400 if tier == 'quick' else 100000
    lengths = LENGTHS_Q if tier == 'quick' else LENGTHS_T
    cases = []
    for i in range(n):
        api = common.stratum(i, 91, APIS)
        bits = 2 + common.stratum(i, 92, 7)
        period = common.stratum(i, 93, PERIODS)
        zv = (common.stratum(i, 94, 5) == 4)
        ncl = common.stratum(i, 95, NCLASSES)
        sname, sexp = SCALE_CLASSES[int(rng.integers(len(SCALE_CLASSES)))]
        scale0 = 10.0 ** sexp
        cx = api in ('complex', 'func_complex')
        cols = 0 if rng.random() < 0.7 else int(common.pick(rng, [1, 2, 5, 16]))
        L = int(common.pick(rng, lengths))
        if cols:
            L = min(L, 2000)
        if ncl in ('len-1', 'ten') and L < 12 and rng.random() < 0.7:
            L = int(common.pick(rng, [33, 100, 1000]))
        N = {'one': 1, 'ten': 10, 'len-1': max(1, L - 1), 'len': L, '1e4': 10000}[ncl]
        stateful = api in ('real', 'complex')
        if stateful:
            hl = int(common.pick(rng, [1, 2, 3, 4, 6, 8, 10, 12, 16, 22, 30]))
            if abs(period) >= 5 and rng.random() < 0.6:
                hl = max(hl, int(rng.integers(15, 31)))
        else:
            hl = int(rng.integers(1, 4))
        budget = 1_500_000 if tier == 'quick' else 3_000_000
        hl = max(1, min(hl, budget // (L * max(cols, 1) * (2 if cx else 1))))
        if rng.random() < 0.5:
            fwhm = float(2 ** bits * rng.uniform(0.1, 0.7))
        else:
            fwhm = float(10 ** rng.uniform(0.0, 2.3))
        fwhm = min(max(fwhm, 1.0), 200.0)
        tm = float(common.pick(rng, [0, 0, 0.5, -1.5, 1, 2, -3])) if rng.random() < 0.5 else float(rng.uniform(-3, 3))
        ops = []
        prev = [None, None]
        for j in range(hl):
            if stateful and j > 0 and rng.random() < 0.13:
                ops.append(dict(op='reset'))
            if stateful and rng.random() < 0.1:
                op = dict(op='set_target', tm=float(rng.uniform(-3, 3)), ts=float(10 ** rng.uniform(0.0, 2.3)) / FWHM_PER_STD)
                if cx:
                    op.update(tm_i=float(rng.uniform(-3, 3)), ts_i=float(10 ** rng.uniform(0.0, 2.3)) / FWHM_PER_STD)
                ops.append(op)
            r = rng.random()
            nn = L if r < 0.7 else max(1, int(common.pick(rng, [L // 2, L + 3, L - 1, 1, 2 * L if L <= 5000 else L])))
            call = dict(op='q', n=nn, cols=cols, parts=[])
            for k in range(2 if cx else 1):
                p = _gen_part(rng, scale0, zv, prev[k])
                if p['dist'] not in ('const', 'nearconst'):
                    prev[k] = p
                    if N < nn:
                        p['tail'] = str(common.pick(rng, ['none', 'scaled', 'scaled', 'last']))
                call['parts'].append(p)
            if not cx and rng.random() < 0.15:
                # voltages as an integer-typed array (ADC counts, or the output of another quantiser)
                call['int_dtype'] = True
            if cx and rng.random() < 0.12:
                # a complex quantiser handed a REAL-dtype array: the imaginary part is identically zero
                call['real_dtype'] = True
                call['parts'][1] = dict(call['parts'][1], dist='const', loc=0.0)
                call['parts'][1].pop('tail', None)
            r = rng.random()
            if api in ('real', 'complex') and r < 0.3:
                # a custom deviation of the order of the data deviation keeps the output resolved
                cs = [float(p['scale'] * rng.uniform(0.5, 2.0)) for p in call['parts']]
                if api == 'real':
                    call['custom'] = cs[0]
                elif rng.random() < 0.5:
                    call['custom'] = cs[0]
                else:
                    call['custom'] = cs
                    call['custom_form'] = str(common.pick(rng, ['list', 'tuple', 'array']))
            if api == 'real' and rng.random() < 0.15:
                call['alias'] = True
            if api == 'func_real' and r < 0.5:
                p = call['parts'][0]
                if r < 0.12 and not zv:
                    # exact ties: data_std == target_std (factor exactly 1), integer offsets, x on the half-integer lattice
                    p.update(dist='halfint', loc=float(rng.integers(-40, 41)), scale=1.0)
                    p.pop('tail', None)
                    tm = float(rng.integers(-3, 4))
                    call['explicit'] = dict(mean=p['loc'], std='target')
                elif p['dist'] not in ('const', 'nearconst'):
                    call['explicit'] = dict(mean=float(p['loc'] + p['scale'] * rng.uniform(-1, 1)),
                                            std=float(p['scale'] * rng.uniform(0.5, 2.0)))
            ops.append(call)
        if api == 'real' and period != 1 and common.stratum(i, 98, 4) == 0:
            # integer-typed voltages whose statistics window (a refresh call) is CONSTANT, followed by cached calls with a custom
            # deviation on ordinary integer data: the cached mean is a number, not a sample of the input's integer type
            qs = [o_ for o_ in ops if o_.get('op') == 'q']
            if len(qs) >= 3 and sname == 'unit':
                cval = float(common.pick(rng, [-12.0, 58.0, -67.0, 100.0, 0.0, -128.0]))
                qs[0].update(int_dtype=True, parts=[dict(dist='const', loc=cval, scale=abs(cval) if cval else 1.0, seed=1)])
                qs[0].pop('custom', None)
                qs[0].pop('alias', None)
                for q_ in qs[1:3]:
                    sc_ = float(rng.uniform(8, 30))
                    q_.update(int_dtype=True, parts=[dict(dist='gauss', loc=float(rng.uniform(-40, 40)), scale=sc_, seed=int(rng.integers(2 ** 31)))],
                              custom=float(sc_ * rng.uniform(0.7, 1.5)))
        if stateful and period <= 0 and common.stratum(i, 99, 3) == 0:
            # a block the quantiser cannot take (empty / missing) is offered before the first block it can: with a
            # non-positive period the estimates still come from the first block that IS quantised, and only from it
            ops.insert(0, dict(op='rejected', how=str(common.pick(rng, ['empty', 'none']))))
        cases.append(dict(api=api, bits=bits, period=period, window=ncl, N=int(N), L=L, fwhm=fwhm, tm=tm, zv=zv,
                          scale=sname, ops=ops, twin=bool(api == 'complex' and common.stratum(i, 96, 2) == 0 and hl <= 12),
                          twin_part=int(common.stratum(i, 97, 2)), sub=int(rng.integers(2 ** 31))))
    return cases


def make_part(p, n, cols, N):
    """Materialise one real input array from its descriptor (worker side, deterministic)."""
    rng = np.random.default_rng(p['seed'])
    shape = (n,) if not cols else (n, cols)
    size = int(np.prod(shape))
    d, loc, sc = p['dist'], p['loc'], p['scale']
    if d == 'const':
        return np.full(shape, loc, dtype=np.float64)
    if d == 'nearconst':
        return (loc * (1.0 + EPS * rng.integers(-2, 3, size=shape))).astype(np.float64)
    if d == 'gauss':
        x = loc + sc * rng.standard_normal(shape)
    elif d == 'uniform':
        x = loc + sc * rng.uniform(-1.7, 1.7, size=shape)
    elif d == 'bimodal':
        x = loc + sc * (rng.choice([-2.0, 2.0], size=shape) + 0.3 * rng.standard_normal(shape))
    elif d == 'heavy':
        x = loc + sc * np.clip(rng.standard_cauchy(shape), -1e6, 1e6)
    elif d == 'ramp':
        x = (loc + sc * np.linspace(-5.0, 5.0, size)).reshape(shape)
        if p['seed'] % 2:
            x = x.ravel()[rng.permutation(size)].reshape(shape)
    elif d == 'lattice':
        x = loc + sc * np.rint(4.0 * rng.standard_normal(shape)) / 4.0
    elif d == 'halfint':
        x = loc + rng.integers(-6, 7, size=shape) + 0.5
    else:
        raise ValueError(d)
    x = np.array(x, dtype=np.float64)
    t = p.get('tail', 'none')
    if t == 'scaled' and N < n:
        x[N:] = loc + 20.0 * sc + 50.0 * (x[N:] - loc)
    elif t == 'last' and 2 <= N <= n:
        x[N - 1] = loc + 40.0 * sc * (1 if p['seed'] % 4 < 2 else -1)
    return x


# ------------------------------------------------------------------------------------------------ reference (R-QUANT)

def ref_stats(x, N):
    """Mean / population deviation of the first min(N, len) entries along axis 0, with exactly rounded sums,
    and the bounds granted to a float64 pairwise evaluation of the same quantities."""
    w = x[:min(int(N), x.shape[0])]
    flat = np.ascontiguousarray(w).ravel()
    lo, hi = float(flat.min()), float(flat.max())
    amax = max(abs(lo), abs(hi))
    em_c = EPS * amax * (32 + (w.shape[0] if x.ndim > 1 else 0))
    if lo == hi:
        # exact statistics of a constant window; `em` is still granted to the float64 mean of the code under test
        # (it matters only when a custom deviation turns the call into an ordinary affine one)
        return dict(m=lo, s=0.0, const=True, em=em_c, rho=0.0, reliable=True, amax=amax, n=int(flat.size), rows=int(w.shape[0]))
    with np.errstate(all='ignore'):
        m = math.fsum(flat.tolist()) / flat.size
        d = flat - m
        dmax = float(np.max(np.abs(d)))
        reliable = bool(1e-150 < dmax < 1e150 and math.isfinite(m))
        s = math.sqrt(math.fsum((d * d).tolist()) / flat.size) if reliable else float('nan')
    em = em_c + 2 * EPS * abs(m)
    rho = 64 * EPS + ((em / s) ** 2 if reliable and s > 0 else 0.0)
    return dict(m=m, s=s, const=False, em=em, rho=rho, reliable=reliable, amax=amax, n=int(flat.size), rows=int(w.shape[0]))


class Shadow:
    """Schedule automaton of one real quantiser: refresh iff (p > 0 and c mod p == 0) or (p <= 0 and c == 0)."""

    def __init__(self, bits, tm, ts, period, N):
        self.bits, self.tm, self.ts, self.p, self.N = bits, tm, ts, period, N
        self.reset()

    def reset(self):
        self.c = 0
        self.cur = None
        self.prev = None

    def mid_period(self):
        return (self.c % self.p != 0) if self.p > 0 else (self.c > 0)

    def on_call(self, x):
        refresh = (self.c % self.p == 0) if self.p > 0 else (self.c == 0)
        if refresh:
            self.prev = self.cur
            self.cur = ref_stats(x, self.N)
        later = refresh and self.c > 0
        self.c += 1
        return refresh, later, self.cur


def bounds(x, m, s, em, rho, tm, ts, bits):
    """Interval of admissible integers per element for round(ts/s (x - m) + tm) clipped, s == 0 => factor 0."""
    lo_c, hi_c = -2 ** (bits - 1), 2 ** (bits - 1) - 1
    with np.errstate(all='ignore'):
        f = 0.0 if s == 0 else ts / s
        fd = f * (x - m)
        v = fd + tm
        b = f * em + np.abs(fd) * (rho + 4 * EPS) + 4 * EPS * (np.abs(v) + abs(tm))
        lo = np.ceil(v - b - 0.5)
        hi = np.floor(v + b + 0.5)
        bad = ~(np.isfinite(b)) | np.isnan(v)
        lo = np.where(bad, lo_c, np.clip(lo, lo_c, hi_c))
        hi = np.where(bad, hi_c, np.clip(hi, lo_c, hi_c))
    return lo, hi, v, b


def guarded(fn, *a, **k):
    """Call into the code under test with floating point events turned into recorded warnings."""
    with warnings.catch_warnings(record=True) as w:
        warnings.simplefilter('always')
        with np.errstate(all='warn'):
            out = fn(*a, **k)
    ev = set()
    for i in w:
        if issubclass(i.category, RuntimeWarning):
            msg = str(i.message)
            for word in ('overflow', 'invalid', 'divide'):
                if word in msg:
                    ev.add(word)
    return out, ev


# ------------------------------------------------------------------------------------------------ post-conditions

def judge(R, x, out, st, kind, custom, tm, ts, bits, N, events, info, alt=None):
    """Post-condition of one real-valued quantisation.  st: statistics in force (dict of ref_stats / explicit);
    kind in {'refresh','cached','stateless','explicit'}; alt: statistics of the competing schedule hypothesis."""
    lo_c, hi_c = -2 ** (bits - 1), 2 ** (bits - 1) - 1
    out = np.asarray(out)
    if not R.check(out.shape == x.shape, 'output-shape', got=list(out.shape), want=list(x.shape), **info):
        return False
    if not R.check(out.dtype.kind in 'iuf', 'output-not-integer', dtype=str(out.dtype), **info):
        return False
    of = out.ravel().astype(np.float64)
    xf = x.ravel()
    R.check(bool(np.all(np.isfinite(of)) and np.all(of == np.rint(of))), 'output-not-integer', dtype=str(out.dtype), **info)
    over, under = of > hi_c, of < lo_c
    R.check(not over.any(), 'range:above-top', n=int(over.sum()), worst=float(of.max()), top=hi_c, **info)
    R.check(not under.any(), 'range:below-bottom', n=int(under.sum()), worst=float(of.min()), bottom=lo_c, **info)
    if (of == hi_c).any():
        R.bucket('clip:top-reached')
    if (of == lo_c).any():
        R.bucket('clip:bottom-reached')
    # monotone, and a function of the input: judged on the real pairs
    if xf.size > 1:
        order = np.argsort(xf, kind='stable')
        xs, os_ = xf[order], of[order]
        dx, do = np.diff(xs), np.diff(os_)
        same = dx == 0
        nf = same & (do != 0)
        dec = ~same & (do < 0)
        R.check(not nf.any(), 'equal-inputs-different-outputs', n=int(nf.sum()), **info)
        if dec.any():
            k = int(np.argmax(dec))
            R.violate('not-monotone', n=int(dec.sum()), x=[float(xs[k]), float(xs[k + 1])], q=[float(os_[k]), float(os_[k + 1])], **info)
        else:
            R.check(True, 'not-monotone')
        R.count('monotone_pairs', int(xf.size - 1))
    x_const = bool(xf.min() == xf.max())
    ds_custom = custom is not None
    if st['const'] and not ds_custom and kind != 'explicit':
        if not x_const:
            R.bucket('unspecified:zero-deviation-nonconstant-input')
            return True
        # zero-variance clause
        R.bucket('zero-variance-judged')
        lo = float(np.clip(math.ceil(tm - 0.5), lo_c, hi_c))
        hi = float(np.clip(math.floor(tm + 0.5), lo_c, hi_c))
        bad = (of < lo) | (of > hi)
        w = x[:min(int(N), x.shape[0])] if kind in ('refresh', 'stateless') else None
        with np.errstate(all='ignore'):
            residue = bool(kind == 'cached' or float(np.std(w)) != 0.0 or float(np.mean(w)) != float(xf[0]))
        key = 'zero-variance-float-std' if residue else 'zero-variance-not-target-mean'
        R.check(not bad.any(), key, constant=float(xf[0]), got=sorted(set(of[bad].tolist()))[:4], want=[lo, hi],
                n=int(xf.size), window_constant=st["m"], call_kind=kind, **info)
        # events is None when the call's floating point events cannot be attributed to zero-variance parts only
        for word in ('overflow', 'invalid') if events is not None else ():
            R.check(word not in events, f'zero-variance-{word}-warning', constant=float(xf[0]), n=int(xf.size), call_kind=kind, **info)
        return True       # does not desynchronise the shadow: the history goes on
    if not st['reliable']:
        R.bucket('affine-skipped:estimator-range')
        return True
    s = float(custom) if ds_custom else st['s']
    rho = 8 * EPS if (ds_custom or kind == 'explicit') else st['rho']
    lo, hi, v, b = bounds(xf, st['m'], s, st['em'], rho, tm, ts, bits)
    bad = (of < lo) | (of > hi)
    exact = lo == hi
    R.count('elements_decided_exactly', int(exact.sum()))
    R.count('elements_tie_or_band', int((~exact).sum()))
    if exact.any() and np.unique(lo[exact]).size >= 2:
        R.mark_nontrivial()
    with np.errstate(all='ignore'):
        fin = np.isfinite(b) & np.isfinite(v)
        if fin.any():
            inner = exact & fin & (lo > -2 ** (bits - 1)) & (lo < 2 ** (bits - 1) - 1)
            R.maximum('band_halfwidth_decided_unclipped', float(np.max(np.where(inner, b, 0.0))))
    if not bad.any():
        R.check(True, 'affine-mismatch')
        return True
    k = int(np.argmax(bad))
    detail = dict(nbad=int(bad.sum()), of=int(xf.size), x=float(xf[k]), got=float(of[k]), want=[float(lo[k]), float(hi[k])],
                  pre=float(v[k]), band=float(b[k]), mean=st['m'], std=s, tm=tm, ts=ts, bits=bits, **info)
    key = None
    if alt is not None and alt.get('reliable') and (ds_custom or not alt['const']):
        lo2, hi2, _, _ = bounds(xf, alt['m'], s if ds_custom else alt['s'], alt['em'], rho if ds_custom else alt['rho'], tm, ts, bits)
        if not ((of < lo2) | (of > hi2)).any():
            key = ('refresh-schedule:refreshed-on-a-cached-call' if kind == 'cached'
                   else 'refresh-schedule:cached-on-a-refresh-call')
    if key is None:
        sub = {'refresh': 'refresh-call', 'cached': 'cached-call', 'stateless': 'stateless-call', 'explicit': 'explicit-stats'}[kind]
        key = 'affine-mismatch:' + sub + (':custom-std' if ds_custom else '')
    R.violate(key, **detail)
    return False


def check_cache(R, cache, st, info):
    """The cached (mean, deviation) named by the property's state anchor, against the shadow's window statistics."""
    if st is None or st['const'] or not st['reliable']:
        return
    try:
        cm, cs = float(cache[0]), float(cache[1])
    except Exception:
        R.violate('cache-not-a-pair', **info)
        return
    R.count('cache_checks')
    R.check(abs(cm - st['m']) <= st['em'], 'cache-mean-mismatch', got=cm, want=st['m'], bound=st['em'], **info)
    R.check(abs(cs - st['s']) <= st['rho'] * st['s'], 'cache-std-mismatch', got=cs, want=st['s'], bound=st['rho'] * st['s'], **info)
    if st['em'] > 0:
        R.maximum('mean_err_over_bound', abs(cm - st['m']) / st['em'])
    if st['s'] > 0:
        R.maximum('std_err_over_bound', abs(cs - st['s']) / (st['rho'] * st['s']))


def _custom_arg(call):
    cu = call.get('custom')
    if cu is None or not isinstance(cu, list):
        return cu
    form = call.get('custom_form', 'list')
    return {'list': list(cu), 'tuple': tuple(cu), 'array': np.array(cu, dtype=np.float64)}[form]


def _buckets_for_call(R, c, call):
    for p in call['parts']:
        R.bucket('dist:' + p['dist'])
        if p.get('tail', 'none') != 'none':
            R.bucket('tail:' + p['tail'])
    if call['cols']:
        R.bucket('ndim:2')
    if call['n'] == 1:
        R.bucket('len:1')
    cu = call.get('custom')
    R.bucket('custom:none' if cu is None else ('custom:pair' if isinstance(cu, list) else 'custom:scalar'))
    if call.get('alias'):
        R.bucket('alias:digitize')
    if call.get('explicit'):
        R.bucket('explicit-stats')


def run_case(c, R):
    common.import_setigen()
    Q = importlib.import_module('setigen.voltage.quantization')
    api, bits, period, N = c['api'], c['bits'], c['period'], c['N']
    ts0 = c['fwhm'] / FWHM_PER_STD
    R.bucket('api:' + api)
    R.bucket(f'bits:{bits}')
    R.bucket(f'period:{period}')
    R.bucket('window:' + c['window'])
    R.bucket('scale:' + c['scale'])
    cx = api in ('complex', 'func_complex')
    nparts = 2 if cx else 1
    sh = [Shadow(bits, c['tm'], ts0, period, N) for _ in range(nparts)]
    q = twin = None
    kw = dict(target_mean=c['tm'], target_fwhm=c['fwhm'], num_bits=bits, stats_calc_period=period, stats_calc_num_samples=N)
    if api == 'real':
        q = Q.RealQuantizer(**kw)
    elif api == 'complex':
        q = Q.ComplexQuantizer(**kw)
        if c.get('twin'):
            twin = Q.ComplexQuantizer(**kw)
            R.bucket('twin:imag-replaced' if c['twin_part'] == 1 else 'twin:real-replaced')
    ncall = 0
    bufs = {}
    for step, op in enumerate(c['ops']):
        if op['op'] == 'reset':
            R.bucket('op:reset')
            if sh[0].mid_period():
                R.bucket('op:reset-mid-period')
            q._reset_cache()
            if twin is not None:
                twin._reset_cache()
            for s_ in sh:
                s_.reset()
            continue
        if op['op'] == 'rejected':
            R.bucket('op:rejected-call-before-the-first-quantised-block')
            for obj in [q] + ([twin] if twin is not None else []):
                try:
                    obj.quantize(None if op['how'] == 'none' else np.array([], dtype=complex if cx else float))
                    R.count('unusable_blocks_accepted')
                except Exception:                           # noqa  (how it is refused is not the property's business)
                    R.count('unusable_blocks_refused')
            continue
        if op['op'] == 'set_target':
            R.bucket('op:set_target')
            if api == 'real':
                q._set_target_stats(op['tm'], op['ts'])
                sh[0].tm, sh[0].ts = op['tm'], op['ts']
            else:
                for obj in [q] + ([twin] if twin is not None else []):
                    obj.quantizer_r._set_target_stats(op['tm'], op['ts'])
                    obj.quantizer_i._set_target_stats(op['tm_i'], op['ts_i'])
                sh[0].tm, sh[0].ts = op['tm'], op['ts']
                sh[1].tm, sh[1].ts = op['tm_i'], op['ts_i']
            continue
        # ---- one quantisation call
        call = op
        _buckets_for_call(R, c, call)
        parts = [make_part(p, call['n'], call['cols'], N) for p in call['parts']]
        info = dict(step=step, call=ncall, api=api)
        ncall += 1
        R.count('calls')
        cu = call.get('custom')
        if cx and call.get('real_dtype'):
            R.bucket('complex-api:real-dtype-input')
            x = parts[0].copy()
            x0 = x.copy()
        elif cx:
            x = np.empty(parts[0].shape, dtype=np.complex128)
            x.real, x.imag = parts[0], parts[1]
            x0 = x.copy()
        else:
            if call.get('int_dtype'):
                mx_ = float(np.max(np.abs(parts[0]))) if parts[0].size else 0.0
                if mx_ < 1e15:
                    parts[0] = np.rint(parts[0])
                    idt_ = np.int8 if mx_ < 120 else (np.int16 if mx_ < 3e4 else np.int64)
                    R.bucket('real-api:integer-dtype-input:' + np.dtype(idt_).name)
                    x = parts[0].astype(idt_)
                else:
                    x = parts[0].copy()
            else:
                x = parts[0].copy()
        if not cx and c['sub'] % 3 == 0:
            # the caller's ONE buffer object, refilled in place for every call (a ring buffer of voltages)
            key_ = (x.shape, x.dtype.str)
            if key_ in bufs:
                bufs[key_][...] = x
                x = bufs[key_]
                R.bucket('same-buffer-object-refilled-between-calls')
            else:
                bufs[key_] = x
        if api == 'real':
            fn = q.digitize if call.get('alias') else q.quantize
            out, ev = guarded(fn, x) if cu is None else guarded(fn, x, custom_std=cu)
            outs, customs = [out], [cu]
        elif api == 'complex':
            arg = _custom_arg(call)
            out, ev = guarded(q.quantize, x) if cu is None else guarded(q.quantize, x, custom_stds=arg)
            out = np.asarray(out)
            outs = [out.real, out.imag]
            customs = [None, None] if cu is None else (list(cu) if isinstance(cu, list) else [cu, cu])
        elif api == 'func_real':
            ex = call.get('explicit')
            fkw = dict(target_mean=c['tm'], target_std=ts0, num_bits=bits, stats_calc_num_samples=N)
            if ex:
                ex_std = ts0 if ex['std'] == 'target' else ex['std']
                fkw.update(data_mean=ex['mean'], data_std=ex_std)
            out, ev = guarded(Q.quantize_real, x, **fkw)
            outs, customs = [out], [None]
        else:
            out, ev = guarded(Q.quantize_complex, x, target_mean=c['tm'], target_std=ts0, num_bits=bits, stats_calc_num_samples=N)
            out = np.asarray(out)
            outs, customs = [out.real, out.imag], [None, None]
        if cx:
            R.check(np.asarray(out).shape == x.shape, 'output-shape', got=list(np.asarray(out).shape), want=list(x.shape), **info)
        # the oracle works on its own copies (parts); an input modified in place is recorded as evidence only -- the
        # property does not forbid it
        if not (np.array_equal(x, x0) if cx else np.array_equal(x, parts[0])):
            R.count('input_modified_in_place')
        ok = True
        plan = []
        for k in range(nparts):
            s_ = sh[k]
            xin = parts[k]
            if api in ('real', 'complex'):
                prev_in_force = s_.cur
                refresh, later, st = s_.on_call(xin)
                kind = 'refresh' if refresh else 'cached'
                R.bucket('call:' + kind)
                if not refresh and s_.p <= 0:
                    R.bucket('call:cached:period<=0')
                if later:
                    R.bucket('call:refresh:later-period')
                # competing hypothesis of the schedule, evaluated lazily on mismatch only
                alt = None
                if refresh and prev_in_force is not None:
                    alt = prev_in_force
                elif not refresh:
                    alt = _Lazy(xin, N)
                plan.append((st, kind, customs[k], s_.tm, s_.ts, alt))
            else:
                ex = call.get('explicit') if api == 'func_real' else None
                if ex:
                    st = dict(m=ex['mean'], s=(ts0 if ex['std'] == 'target' else ex['std']), const=False, em=0.0, rho=0.0,
                              reliable=True)
                    kind = 'explicit'
                else:
                    st = ref_stats(xin, N)
                    kind = 'stateless'
                plan.append((st, kind, None, c['tm'], ts0, None))
        # floating point events are observed per API call: they are attributed to the zero-variance clause only when
        # every part of the call is judged under that clause
        all_zv = all(pl[0]['const'] and pl[2] is None and pl[1] != 'explicit' and float(parts[k].min()) == float(parts[k].max())
                     for k, pl in enumerate(plan))
        for k, (st, kind, cust, tm_k, ts_k, alt) in enumerate(plan):
            pinfo = dict(info, part=('real', 'imag')[k]) if cx else info
            ok &= judge(R, parts[k], outs[k], st, kind, cust, tm_k, ts_k, bits, N, ev if all_zv else None, pinfo, alt=alt)
            if api in ('real', 'complex'):
                sub = q if api == 'real' else getattr(q, ('quantizer_r', 'quantizer_i')[k], None)
                if sub is not None and hasattr(sub, 'stats_cache'):
                    check_cache(R, sub.stats_cache, st, pinfo)
                if api == 'complex':
                    top = getattr(q, ('stats_cache_r', 'stats_cache_i')[k], None)
                    if top is not None:
                        check_cache(R, top, st, dict(pinfo, attr='stats_cache_' + 'ri'[k]))
        # ---- complex quantiser: one part must not depend on the other part's input
        if twin is not None:
            j = c['twin_part']            # the part that is REPLACED in the twin's input
            other = make_part(dict(call['parts'][j], seed=call['parts'][j]['seed'] ^ 0x5a5a5, dist='gauss',
                                   loc=-3.0 * call['parts'][j]['loc'] + call['parts'][j]['scale'],
                                   scale=7.0 * call['parts'][j]['scale']), call['n'], call['cols'], N)
            x2 = x0.astype(np.complex128)          # (x0 may be a real-dtype array)
            if j == 1:
                x2.imag = other
            else:
                x2.real = other
            if cu is None:
                out2, _ = guarded(twin.quantize, x2)
            else:
                out2, _ = guarded(twin.quantize, x2, custom_stds=_custom_arg(call))
            out2 = np.asarray(out2)
            if j == 1:
                R.check(np.array_equal(out2.real, outs[0]), 'complex-real-output-depends-on-imaginary-input',
                        ndiff=int(np.sum(out2.real != outs[0])), **info)
            else:
                R.check(np.array_equal(out2.imag, outs[1]), 'complex-imaginary-output-depends-on-real-input',
                        ndiff=int(np.sum(out2.imag != outs[1])), **info)
        if not ok and api in ('real', 'complex'):
            # the shadow follows the specification, not the code: later calls stay judgeable, but one structural
            # failure per history is enough evidence
            break


class _Lazy(dict):
    """Statistics of the current input (the 'refreshed although cached' hypothesis), computed on first use."""

    def __init__(self, x, N):
        super().__init__()
        self._x, self._N = x, N

    def _fill(self):
        if not len(self):
            self.update(ref_stats(self._x, self._N))

    def get(self, k, d=None):
        self._fill()
        return dict.get(self, k, d)

    def __getitem__(self, k):
        self._fill()
        return dict.__getitem__(self, k)


MANIFEST = {
    'text': 'Runtime monitoring: every call of RealQuantizer.quantize/digitize, ComplexQuantizer.quantize, quantize_real and '
            'quantize_complex in stratified call histories (bit widths 2..8, refresh periods >0 / 0 / <0, statistics windows '
            '1..len..1e4, resets and target changes interleaved, custom deviations, constant / huge / tiny / heavy-tailed / '
            '2-D inputs) is checked for integrality, range, monotonicity on the real input/output pairs and against the affine '
            'formula evaluated with the statistics of an independent shadow automaton that implements the stated refresh '
            'schedule (tie- and rounding-error-tolerant interval per element); zero-variance inputs must map to the rounded '
            'target mean without overflow / invalid-value events; the two parts of a complex quantiser are checked for mutual '
            'independence with a twin quantiser. Held = no monitor fired on the executions produced; exploration, not proof.',
    'note': '; '.join(ASSUMPTIONS),
    'technique': 'post-condition monitors with a shadow state automaton (reference quantiser) and derived rounding bands',
}
