"""C12 -- determinism from seeds, history independence, copy isolation.

Monitors: (1) digest equality of all-seeded scenario outputs between this worker process
(after a history prefix of other scenarios) and a fresh interpreter with a different hash
seed, working directory and temp path; (2) the same scenario twice in one process;
(3) record() with a reused caller dictionary on fresh identical backends; (4) copy() /
pickle round trips: equality and isolation for frames of every construction route;
(5) different seeds / polarisations / antennas give different noise.
"""
import os
import sys
import copy
import json
import shutil
import subprocess
import numpy as np
from .. import common, scen

ID = 'C12'
LEVEL = 'exploration'
RULE = ('scenario catalogue (frame noise incl. obs tables, seeded rfi paths / pulse profiles, stream and array requests, channelised-noise '
        'estimate, recordings with default / explicit / reused header dictionaries, array 4-bit recording, two recordings on one backend, '
        'injection onto RAW) x seeds x history prefixes (every ordered pair of scenarios is reached over the case index); copy/pickle over '
        'construction routes {synthetic, with noise, from_data, loaded .fil, loaded .h5, sliced, after get_waterfall}; '
        'non-trivial = a digest comparison across processes or histories was made on a scenario that draws random numbers or writes files; '
        'distinct = distinct descriptor')
ASSUMPTIONS = ['only scenarios in which every randomness source is seeded and every time stamp pinned are judged',
               'a fresh interpreter differs in PYTHONHASHSEED, cwd and temp path; machine/numpy build are the same',
               'caller dictionaries: the behavioural clause is judged (a later identical call writes identical bytes); mutation itself is recorded as information',
               'unpickled frames carry no Waterfall by design (documented); equality covers data, axes, metadata, generator state',
               'independence of differently seeded noise is judged by inequality and |corr| < 6/sqrt(n)']
NAMES = sorted(scen.SCENARIOS)
ROUTES = ['synthetic', 'noise', 'from_data', 'loaded_fil', 'loaded_h5', 'sliced', 'after_get_waterfall', 'sliced_loaded', 'consolidated']


def required(tier):
    b = {f'scenario:{n}': 2 for n in NAMES}
    b.update({f'route:{r}': 3 for r in ROUTES})
    b.update({'kind:xproc': 30, 'kind:header': 8, 'kind:copy': 20, 'kind:seeds': 8})
    b.update({'noise-free-second-recording:10-windows-in-3-sub-blocks': 2, 'noise-free-second-recording:4-windows-in-2-sub-blocks': 1})
    return {'buckets': b, 'counters': {'fresh_process_runs': 30, 'digest_pairs_compared': 100, 'copy_checks': 40},
            'checks': 400, 'nontrivial': 40}


def gen_cases(seed, tier):
    rng = np.random.default_rng([seed, 12])
    cases = []
    n_x = 66 if tier == 'quick' else 2400
    for i in range(n_x):
        tgt = NAMES[i % len(NAMES)]
        pre = NAMES[(i // len(NAMES) + i) % len(NAMES)]
        cases.append(dict(kind='xproc', target=tgt, prefix=[pre] if i % 3 else [pre, NAMES[(i * 7 + 3) % len(NAMES)]],
                          seed=int(rng.integers(1, 10 ** 6)), hashseed=int(rng.integers(1, 10 ** 6))))
    for i in range(10 if tier == 'quick' else 150):
        cases.append(dict(kind='header', seed=int(rng.integers(1, 10 ** 6)), template=bool(i % 2), array=bool((i // 2) % 2)))
    for i in range(32 if tier == 'quick' else 800):
        cases.append(dict(kind='copy', route=ROUTES[i % len(ROUTES)], asc=bool((i // len(ROUTES)) % 2), seed=int(rng.integers(1, 10 ** 6)),
                          fchans=int(rng.integers(3, 80)), tchans=int(rng.integers(3, 20))))
    for i in range(10 if tier == 'quick' else 150):
        cases.append(dict(kind='seeds', seed=int(rng.integers(1, 10 ** 6))))
    return cases


def fresh_process(name, seed, hashseed, R):
    tmp = os.path.join(os.environ['VERIF_TMP'], f'c12_fresh_{os.getpid()}_{hashseed}')
    cwd = os.path.join(os.environ['VERIF_TMP'], f'c12_cwd_{os.getpid()}_{hashseed}')
    os.makedirs(cwd, exist_ok=True)
    env = dict(os.environ, PYTHONHASHSEED=str(hashseed % 4294967295), PYTHONPATH=common.VERIF)
    try:
        r = subprocess.run([sys.executable, '-B', '-m', 'vlib.scen', name, str(seed), tmp], cwd=cwd, env=env, capture_output=True,
                           text=True, timeout=900)
    except subprocess.TimeoutExpired:
        R.inconclusive = 'fresh process watchdog'
        return None
    finally:
        shutil.rmtree(tmp, ignore_errors=True)
        shutil.rmtree(cwd, ignore_errors=True)
    for line in r.stdout.splitlines():
        if line.startswith('DIGESTS='):
            R.count('fresh_process_runs')
            return [tuple(x) for x in json.loads(line[8:])]
    R.violate('scenario-fails-in-fresh-process', scenario=name, seed=seed, rc=r.returncode, err=r.stderr[-1500:])
    return None


def compare(R, a, b, key, **detail):
    R.count('digest_pairs_compared', max(len(a), len(b)))
    if [x[0] for x in a] != [x[0] for x in b]:
        R.violate(key + ':different-outputs-listed', a=[x[0] for x in a], b=[x[0] for x in b], **detail)
        return False
    diff = [x[0] for x, y in zip(a, b) if x[1] != y[1]]
    return R.check(not diff, key, differing=diff, **detail)


def run_case(c, R):
    stg = common.import_setigen()
    R.bucket('kind:' + c['kind'])
    tmp = os.path.join(os.environ['VERIF_TMP'], f"c12_{c['_idx']}")
    os.makedirs(tmp, exist_ok=True)
    try:
        {'xproc': _xproc, 'header': _header, 'copy': _copy, 'seeds': _seeds}[c['kind']](stg, c, tmp, R)
    finally:
        shutil.rmtree(tmp, ignore_errors=True)


def _xproc(stg, c, tmp, R):
    name, seed = c['target'], c['seed']
    R.bucket('scenario:' + name)
    for p in c['prefix']:
        scen.run(p, seed + 17, tmp)                       # history prefix (other seeds, same process)
    here = scen.run(name, seed, tmp)
    again = scen.run(name, seed, tmp)
    fresh = fresh_process(name, seed, c['hashseed'], R)
    kind = ':recording' if name.startswith(('record', 'inject')) else ''
    compare(R, here, again, 'same-scenario-twice-in-one-process-differs' + kind, scenario=name, seed=seed)
    if fresh is not None:
        compare(R, here, fresh, 'output-depends-on-process-history' + kind, scenario=name, seed=seed, prefix=c['prefix'])
        R.mark_nontrivial(True)


def _header(stg, c, tmp, R):
    """record(header_dict=d) twice on fresh identical backends with the same caller dictionary; default argument object."""
    v = stg.voltage
    rec = v.RawVoltageBackend.record
    raw = getattr(rec, '__verif_wrapped__', rec)
    defaults_before = copy.deepcopy(raw.__defaults__)
    d = {'OBSERVER': 'someone', 'DIRECTIO': 0, 'CUSTOM1': 3.5, 'PKTIDX': 1000} if c['seed'] % 2 else {'SRC_NAME': 'X1', 'N': 1}
    d0 = copy.deepcopy(d)
    outs = []
    for k in range(3):
        rvb, src = scen._backend(stg, c['seed'], array=c['array'], bits=8, npol=2)
        stem = os.path.join(tmp, f'h{k}')
        with common.quiet():
            rvb.record(stem, num_blocks=3, length_mode='num_blocks', header_dict=d, load_template=c['template'], verbose=False)
        outs.append(scen.hfiles(stem))
    for k in (1, 2):
        compare(R, [(n.replace(f'h{k}', 'h0'), x) for n, x in outs[k]], outs[0], 'reused-caller-header-dict-changes-later-recording', call=k)
    if d != d0:
        R.count('caller_dict_mutated')
    # default argument: two default-argument recordings (fresh identical backends) in one process
    outs = []
    for k in range(2):
        rvb, src = scen._backend(stg, c['seed'] + 1, array=c['array'])
        stem = os.path.join(tmp, f'd{k}')
        with common.quiet():
            rvb.record(stem, num_blocks=2, length_mode='num_blocks', load_template=c['template'], verbose=False)
        outs.append(scen.hfiles(stem))
    compare(R, [(n.replace('d1', 'd0'), x) for n, x in outs[1]], outs[0], 'default-header-dict-shared-between-recordings')
    # what a recording writes depends only on backend configuration, antenna state and arguments: the SECOND recording of a
    # backend must equal the recording a fresh, identically configured backend makes from the same antenna state
    for period in (1, -1, 2, 3):
        outs = []
        for world in range(2):
            rvb, src = scen._backend(stg, c['seed'] + 3, array=c['array'], bits=8, npol=2)
            for a_ in range(rvb.num_antennas):
                for p_ in range(rvb.num_pols):
                    for q_ in (rvb.requantizer[a_][p_].quantizer_r, rvb.requantizer[a_][p_].quantizer_i, rvb.digitizer[a_][p_]):
                        q_.stats_calc_period = period
                    rvb.requantizer[a_][p_].stats_calc_period = period
            stem = os.path.join(tmp, f'rr{period}_{world}_first')
            with common.quiet():
                rvb.record(stem, num_blocks=3, length_mode='num_blocks', header_dict={}, load_template=False, verbose=False)
            # louder noise for the second scan, so stale statistics are visible
            for an in (src.antennas if c['array'] else [src]):
                for st in an.streams:
                    st.add_noise(0, 3.0)
            if world == 1:
                rvb2 = v.RawVoltageBackend(src, digitizer=[[__import__('copy').deepcopy(d_) for d_ in row] for row in rvb.digitizer],
                                           filterbank=[[v.PolyphaseFilterbank(num_taps=4, num_branches=16) for _ in row] for row in rvb.filterbank],
                                           requantizer=[[v.ComplexQuantizer(num_bits=8, stats_calc_period=period) for _ in row] for row in rvb.requantizer],
                                           start_chan=rvb.start_chan, num_chans=rvb.num_chans, block_size=rvb.block_size,
                                           blocks_per_file=rvb.blocks_per_file, num_subblocks=2)
                for row in rvb2.digitizer:
                    for d_ in row:
                        d_._reset_cache()
                rvb = rvb2
            stem = os.path.join(tmp, f'rr{period}_{world}_second')
            with common.quiet():
                rvb.record(stem, num_blocks=3, length_mode='num_blocks', header_dict={}, load_template=False, verbose=False)
            outs.append([(n_.split(':')[-1].replace(f'rr{period}_{world}_', ''), x) for n_, x in scen.hfiles(stem)])
        compare(R, outs[0], outs[1], 'second-recording-on-a-backend-differs-from-fresh-backend' + ('' if period == 1 else ':period!=1'), period=period)
    # deterministic sources only (no noise, so no generator state to carry): the second recording made from an antenna / array
    # equals the first recording of a fresh identical one whose clock was set to the same instant -- "antenna state" is its
    # sources and its clock, nothing left over from the earlier recording (shared-background clocks, delay carry-over ...)
    # (every other case: 10 filterbank windows per block worked through in 3 sub-blocks, which do not divide them)
    spb_, nsub_ = (40, 3) if c['seed'] % 2 == 1 else (16, 2)
    R.bucket(f'noise-free-second-recording:{spb_ // 4}-windows-in-{nsub_}-sub-blocks')

    def quiet_world():
        kw = dict(sample_rate=1e6, fch1=1e9, ascending=bool(c['seed'] % 2), num_pols=2, seed=c['seed'])
        src_ = v.MultiAntennaArray(num_antennas=2, delays=[0, 3 + c['seed'] % 5], **kw) if c['array'] else v.Antenna(**kw)
        sgn_ = 1 if kw['ascending'] else -1
        if c['array']:
            for q_, s_ in enumerate(src_.bg_streams):
                s_.add_constant_signal(f_start=1e9 + sgn_ * (1e6 / 16) * (1.7 + q_), drift_rate=sgn_ * 3e5, level=0.8)
        for a_i, an in enumerate(src_.antennas if c['array'] else [src_]):
            for q_, s_ in enumerate(an.streams):
                s_.add_constant_signal(f_start=1e9 + sgn_ * (1e6 / 16) * (2.3 + 0.4 * q_ + 0.2 * a_i), drift_rate=-sgn_ * 1e5, level=1.0)
        rvb_ = v.RawVoltageBackend(src_, digitizer=v.RealQuantizer(num_bits=8), filterbank=v.PolyphaseFilterbank(num_taps=4, num_branches=16),
                                   requantizer=v.ComplexQuantizer(num_bits=8), start_chan=1, num_chans=3,
                                   block_size=(2 if c['array'] else 1) * 3 * spb_ * 4, blocks_per_file=2, num_subblocks=nsub_)
        return rvb_, src_

    def rec_(rvb_, name):
        stem_ = os.path.join(tmp, name)
        with common.quiet():
            rvb_.record(stem_, num_blocks=3, length_mode='num_blocks', header_dict={}, load_template=False, verbose=False)
        return [(n_.split(':')[-1].replace(name, 'X'), x) for n_, x in scen.hfiles(stem_)]
    rA, sA = quiet_world()
    rec_(rA, 'qa1')
    t1 = sA.t_start
    second = rec_(rA, 'qa2')
    rB, sB = quiet_world()
    sB.set_time(t1)
    fresh = rec_(rB, 'qb1')
    compare(R, second, fresh, 'noise-free-second-recording-differs-from-fresh-source-set-to-the-same-instant' + (':array' if c['array'] else ''))
    raw2 = getattr(v.RawVoltageBackend.record, '__verif_wrapped__', v.RawVoltageBackend.record)
    R.check(raw2.__defaults__ == defaults_before, 'record-default-arguments-changed', before=repr(defaults_before)[:200], after=repr(raw2.__defaults__)[:200])
    R.mark_nontrivial(True)


def _frame_equal(R, a, b, key, check_waterfall):
    ok = (np.array_equal(a.data, b.data) and a.data.dtype == b.data.dtype and np.array_equal(a.fs, b.fs) and np.array_equal(a.ts, b.ts)
          and a.df == b.df and a.dt == b.dt and a.fch1 == b.fch1 and a.ascending == b.ascending and a.t_start == b.t_start
          and a.source_name == b.source_name and tuple(a.shape) == tuple(b.shape) and a.noise_mean == b.noise_mean and a.noise_std == b.noise_std)
    R.count('copy_checks')
    R.check(ok, key + ':attributes-or-data-differ')
    R.check(a.metadata == b.metadata, key + ':metadata-differ')
    R.check(a.rng.bit_generator.state == b.rng.bit_generator.state, key + ':generator-state-differs')
    if check_waterfall:
        wa, wb = a.waterfall, b.waterfall
        R.check((wa is None) == (wb is None), key + ':waterfall-presence-differs', a=wa is None, b=wb is None)
        if wa is not None and wb is not None:
            ha = {k: (v.decode() if isinstance(v, bytes) else repr(v)) for k, v in wa.header.items()}
            hb = {k: (v.decode() if isinstance(v, bytes) else repr(v)) for k, v in wb.header.items()}
            R.check(ha == hb and np.array_equal(np.asarray(wa.data), np.asarray(wb.data)), key + ':waterfall-differs')
            R.check(wa is not wb and wa.header is not wb.header and not np.shares_memory(np.asarray(wa.data), np.asarray(wb.data)),
                    key + ':waterfall-shared')


def _copy(stg, c, tmp, R):
    R.bucket('route:' + c['route'])
    rng = np.random.default_rng(c['seed'])
    T, F = c['tchans'], c['fchans']
    kw = dict(df=2.7939677238464355, dt=18.253611008, fch1=6e9, ascending=c['asc'])
    base = stg.Frame(fchans=F, tchans=T, seed=c['seed'], t_start=1.7e9, source_name='SRC', **kw)
    base.add_noise(10.0)
    base.add_metadata({'note': [1, 2, 3], 'drift_rate': 0.1})
    route = c['route']
    with common.quiet():
        if route == 'synthetic':
            fr = stg.Frame(fchans=F, tchans=T, seed=c['seed'], t_start=1.7e9, **kw)
        elif route == 'noise':
            fr = base
        elif route == 'from_data':
            src_arr = rng.normal(size=(T, F))
            src_copy = src_arr.copy()
            fr = stg.Frame.from_data(kw['df'], kw['dt'], kw['fch1'], c['asc'], src_arr, metadata={'a': {'b': 1}}, seed=c['seed'])
            # the same calls on a second frame built from the SAME caller array with the same seed give the same frame: the first
            # frame's operations did not reach the array they were both built from
            n_first = fr.add_noise(4.0, 1.0, noise_type='gaussian')
            fr_b = stg.Frame.from_data(kw['df'], kw['dt'], kw['fch1'], c['asc'], src_arr, metadata={'a': {'b': 1}}, seed=c['seed'])
            n_second = fr_b.add_noise(4.0, 1.0, noise_type='gaussian')
            R.check(np.array_equal(src_arr, src_copy), 'frame-operations-changed-the-array-the-frame-was-built-from')
            R.check(np.array_equal(n_first, n_second) and np.array_equal(fr.data, fr_b.data), 'two-identical-builds-from-one-array-differ')
        elif route in ('loaded_fil', 'loaded_h5', 'sliced_loaded'):
            p = os.path.join(tmp, 'x.h5' if route == 'loaded_h5' else 'x.fil')
            (base.save_h5 if route == 'loaded_h5' else base.save_fil)(p)
            fr = stg.Frame(waterfall=p, seed=c['seed'])
            if route == 'sliced_loaded':
                fr = fr.get_slice(1, F - 1)
        elif route == 'sliced':
            fr = base.get_slice(1, F - 1)
        elif route == 'consolidated':
            # concatenation of a cadence: its time axis holds absolute times with slew gaps (not i*dt)
            f2 = stg.Frame(fchans=F, tchans=max(2, T // 2), seed=c['seed'] + 1, t_start=1.7e9 + T * kw['dt'] + 500.0, **kw)
            f2.add_noise(10.0)
            fr = stg.Cadence([base, f2]).consolidate()
            fr.add_metadata({'k': [1]})
        elif route == 'after_get_waterfall':
            fr = base
            fr.get_waterfall()
        had_wf = fr.waterfall is not None

        def wf_state(f_):
            if f_.waterfall is None:
                return None
            # identity cards of the file the frame came from; the geometry cards (fch1, foff, nchans, tstart, tsamp) are
            # legitimately refreshed from the frame whenever its Waterfall is requested
            def norm(x):
                if isinstance(x, bytes):
                    return x.decode()
                if isinstance(x, (int, float, np.integer, np.floating)):
                    return float(x)
                return str(x)
            return ({k: norm(x) for k, x in f_.waterfall.header.items()
                     if (k.decode() if isinstance(k, bytes) else k) not in ('fch1', 'foff', 'nchans', 'tstart', 'tsamp', 'nbits', 'nifs')},)
        wf0 = wf_state(fr)
        cp = fr.copy()
        if had_wf:
            # taking a copy is a read of the original: a frame that came with a Waterfall (its file's header) still has it
            wf1 = wf_state(fr)
            R.check(wf1 is not None and wf1[0] == wf0[0], 'copy:taking-a-copy-changed-the-original-waterfall',
                    lost=wf1 is None, keys=[k for k in wf0[0] if wf1 is not None and wf1[0].get(k) != wf0[0][k]][:6])
    _frame_equal(R, fr, cp, 'copy', check_waterfall=had_wf)
    R.check(cp is not fr and not np.shares_memory(cp.data, fr.data) and cp.metadata is not fr.metadata and cp.rng is not fr.rng
            and not np.shares_memory(cp.fs, fr.fs) and not np.shares_memory(cp.ts, fr.ts), 'copy:shares-state-with-original')
    # isolation both ways
    snap = (fr.data.copy(), copy.deepcopy(fr.metadata), copy.deepcopy(fr.rng.bit_generator.state), fr.ts.copy())
    cp.data += 1.0
    cp.metadata['note'].append(99) if 'note' in cp.metadata else cp.metadata.update(zz=1)
    cp.metadata['new'] = 1
    cp.rng.random(5)
    cp.ts += 5.0
    cp.add_noise(3.0, 1.0, noise_type='gaussian')
    if cp.waterfall is not None:
        cp.waterfall.header['source_name'] = 'CHANGED'
    hdr_edit = isinstance(getattr(cp, 'header', None), dict)
    if hdr_edit:
        cp.header['source_name'] = 'CHANGED_VIA_HEADER'
        cp.header['verif_new_key'] = 1
    R.check(np.array_equal(fr.data, snap[0]) and fr.metadata == snap[1] and fr.rng.bit_generator.state == snap[2] and np.array_equal(fr.ts, snap[3]),
            'copy:mutating-the-copy-changed-the-original')
    if hdr_edit:
        for nm_, h_ in (('frame-header', getattr(fr, 'header', None)), ('waterfall-header', fr.waterfall.header if fr.waterfall is not None else None)):
            if isinstance(h_, dict):
                sn_ = h_.get('source_name')
                R.check((sn_.decode() if isinstance(sn_, bytes) else sn_) != 'CHANGED_VIA_HEADER' and 'verif_new_key' not in h_,
                        'copy:header-dictionary-shared-with-original:' + nm_)
    if fr.waterfall is not None:
        sn = fr.waterfall.header.get('source_name')
        R.check((sn.decode() if isinstance(sn, bytes) else sn) != 'CHANGED', 'copy:waterfall-header-shared')
    cp2 = fr.copy()
    snap2 = (cp2.data.copy(), copy.deepcopy(cp2.metadata))
    fr.data *= 2.0
    fr.metadata['later'] = True
    R.check(np.array_equal(cp2.data, snap2[0]) and cp2.metadata == snap2[1], 'copy:mutating-the-original-changed-the-copy')
    # pickle
    p = os.path.join(tmp, 'fr.pickle')
    wf0 = wf_state(fr)
    fr.save_pickle(p)
    if wf0 is not None:
        wf1 = wf_state(fr)
        R.check(wf1 is not None and wf1[0] == wf0[0], 'pickle:saving-changed-the-original-waterfall', lost=wf1 is None)
    up = stg.Frame.load_pickle(p)
    _frame_equal(R, fr, up, 'pickle', check_waterfall=False)
    a = fr.add_noise(1.0, 1.0, noise_type='gaussian')
    b = up.add_noise(1.0, 1.0, noise_type='gaussian')
    R.check(np.array_equal(a, b), 'pickle:generator-continues-differently')
    R.mark_nontrivial(True)


def _seeds(stg, c, tmp, R):
    v = stg.voltage
    n = 4000
    lim = 6 / np.sqrt(n)

    def indep(x, y, key):
        x, y = np.asarray(x, dtype=float).ravel(), np.asarray(y, dtype=float).ravel()
        R.check(not np.array_equal(x, y), key + ':identical')
        cc = float(np.corrcoef(x, y)[0, 1])
        R.check(abs(cc) < lim, key + ':correlated', corr=cc, limit=lim)
    a = v.Antenna(sample_rate=1e6, num_pols=2, seed=c['seed'])
    a.x.add_noise(0, 1)
    a.y.add_noise(0, 1)
    s = a.get_samples(n)
    indep(s[0][0], s[0][1], 'polarisations-share-noise')
    m = v.MultiAntennaArray(num_antennas=3, sample_rate=1e6, num_pols=2, delays=[0, 1, 2], seed=c['seed'])
    for an in m.antennas:
        an.x.add_noise(0, 1)
        an.y.add_noise(0, 1)
    for b_ in m.bg_streams:
        b_.add_noise(0, 1)
    s = m.get_samples(n)
    indep(m.bg_x.v[:n], m.bg_y.v[:n], 'background-polarisations-share-noise')
    # background-only array: the antenna outputs ARE the background
    m2 = v.MultiAntennaArray(num_antennas=2, sample_rate=1e6, num_pols=2, delays=[0, 0], seed=c['seed'] + 5)
    for b_ in m2.bg_streams:
        b_.add_noise(0, 1)
    s2 = m2.get_samples(n)
    indep(s2[0][0], s2[0][1], 'background-polarisations-share-noise')
    indep(s[0][0], s[1][0], 'antennas-share-noise')
    indep(s[1][1], s[2][1], 'antennas-share-noise')
    indep(s[0][0], s[0][1], 'polarisations-share-noise')
    f1 = stg.Frame(fchans=80, tchans=50, seed=c['seed'])
    f2 = stg.Frame(fchans=80, tchans=50, seed=c['seed'] + 1)
    f3 = stg.Frame(fchans=80, tchans=50, seed=c['seed'])
    n1, n2, n3 = f1.add_noise(10.0), f2.add_noise(10.0), f3.add_noise(10.0)
    indep(n1, n2, 'frames-with-different-seeds-share-noise')
    R.check(np.array_equal(n1, n3), 'frames-with-equal-seeds-differ')
    a1 = v.Antenna(sample_rate=1e6, num_pols=1, seed=c['seed'])
    a2 = v.Antenna(sample_rate=1e6, num_pols=1, seed=c['seed'] + 1)
    a1.x.add_noise(0, 1)
    a2.x.add_noise(0, 1)
    indep(a1.get_samples(n), a2.get_samples(n), 'antennas-with-different-seeds-share-noise')
    # "all seeds": the edge values a seed can take -- 0 (falsy), numpy integers, the largest 32/63-bit values, a Generator --
    # are seeds like any other: two identical builds give identical draws
    edge = [0, np.int64(0), 1, 2 ** 31 - 1, 2 ** 32 - 1, 2 ** 63 - 1, np.uint32(7), c['seed']][c['seed'] % 8:][:3] + [0]
    for sd in edge:
        nm = f'{type(sd).__name__}:{int(sd)}'
        R.bucket('edge-seed:' + ('zero' if int(sd) == 0 else 'other'))

        def mk(kind):
            if kind == 'antenna':
                o = v.Antenna(sample_rate=1e6, num_pols=2, seed=sd)
                o.x.add_noise(0, 1)
                o.y.add_noise(0, 1)
                return np.array(o.get_samples(256))
            if kind == 'array':
                o = v.MultiAntennaArray(num_antennas=2, sample_rate=1e6, num_pols=1, delays=[0, 2], seed=sd)
                for an in o.antennas:
                    an.x.add_noise(0, 1)
                o.bg_x.add_noise(0, 1)
                return np.array(o.get_samples(256))
            if kind == 'stream':
                o = v.DataStream(sample_rate=1e6, seed=sd)
                o.add_noise(0, 1)
                return np.array(o.get_samples(256))
            if kind == 'frame':
                o = stg.Frame(fchans=32, tchans=8, seed=sd)
                return np.array(o.add_noise(5.0))
            fb = v.PolyphaseFilterbank(num_taps=2, num_branches=8)
            with common.quiet():
                return np.array(fb.estimate_channelized_stds(factor=50, seed=sd))
        for kind in ('antenna', 'array', 'stream', 'frame', 'chanstd'):
            R.check(np.array_equal(mk(kind), mk(kind)), 'same-seed-different-draws:' + kind + (':seed-zero' if int(sd) == 0 else ''), seed=nm)
    # ... and seeds that differ are different seeds, however far apart: s and s + 2^32 (numpy recommends 64-128 bit seeds)
    base_ = int(c['seed']) + 12345
    for kind in ('antenna', 'array', 'stream', 'frame'):
        draws_ = []
        for sd in (base_, base_ + 2 ** 32, base_ + 2 ** 40):
            draws_.append(mk(kind))
        R.check(not np.array_equal(draws_[0], draws_[1]) and not np.array_equal(draws_[0], draws_[2]),
                'seeds-differing-by-a-multiple-of-2^32-draw-the-same-noise:' + kind)
    R.mark_nontrivial(True)


MANIFEST = {
    'text': 'Runtime monitoring across processes and histories: digests of every array and file of all-seeded scenarios are compared between '
            'the worker (after a history prefix of other scenarios) and a fresh interpreter with different hash seed / cwd / temp path, and '
            'between repetitions; reused caller header dictionaries and the default argument of record(); copy()/pickle equality and '
            'two-way isolation for frames of every construction route; independence of differently seeded noise.',
    'note': '; '.join(ASSUMPTIONS),
    'technique': 'offline comparison of recorded output digests across processes and call histories; snapshot monitors for isolation',
}
