"""C18 -- a cadence is a consistency-guarded list of frames with stable order labels.

Monitor: lock-step reference model (R-LIST: a plain Python list of pool indices + the
guard of the property text + the order-label rule) mirrored on every public list
operation of a random history; after every step the cadence is compared with the
model by identity, the labels of *all* pool frames with the model's label book, the
aggregate properties with a recomputation from the member frames.  The same model
(with abstract frame signatures) steers the generator so that index classes, guard
classes and label situations are reached on purpose.
"""
import itertools
import random
import types
from fractions import Fraction

import numpy as np

from .. import common

ID = 'C18'
LEVEL = 'exploration'
GUARD = ('df', 'dt', 'fchans', 'fmin')
NONFRAMES = ['none', 'ndarray', 'str', 'int', 'cadence', 'list', 'duck', 'class', 'dict']
FORMS = ['list', 'tuple', 'gen', 'ndarray', 'cadence']
IDX_CLASSES = ['in+', 'in-', '=-len', '=len', '>len', '<-len']
ORDERS = ['ABACAD', 'ABABAB', 'ABCDEFGH', 'AAAAAA', 'AB', 'A', 'ABACADABACAD', 'BAACABADAA', 'ABCABCABCABCABCABC', '']
MUT_OPS = ['append', 'insert', 'setitem', 'delitem', 'delslice', 'pop', 'extend', 'iadd', 'construct', 'setslice',
           'extend_str', 'extend_frame']
SEL_OPS = ['getint', 'getslice', 'getidx']
ORD_OPS = ['by_label', 'set_order']

RULE = ('operation histories of 6-40 (thorough: 6-80) steps on a plain or ordered cadence over a pool of 4-14 mutually compatible frames '
        '(varying tchans/t_start, mixed orientation, a Frame subclass), frames differing in exactly one (or two) of '
        'df/dt/fchans/fmin by a small (1e-7 relative, +1 channel, 0.01 channel) or large amount, twins of such frames, '
        'and non-frames (None, ndarray, str, int, a Cadence, a list, a duck-typed namespace, the Frame class, a dict); '
        'stratified by case index: cadence kind x order string x focus (operation x index class {in range >=0, in range <0, '
        '== -len, == len, > len, < -len} x offered-object class {fresh, duplicate, labelled elsewhere, incompatible, '
        'non-frame}); operations: construct (list/tuple/generator/object ndarray/Cadence, bad element mid-way), append, '
        'insert, item and slice assignment, del int/slice, pop, extend (incl. self, str, non-iterable), +=, int/slice/'
        'index-list/index-ndarray/boolean-mask selection, by_label, set_order (order shorter/equal/longer than the cadence); '
        'non-trivial = a history with >=1 accepted insertion, >=1 demanded rejection and a cadence of >=2 frames compared; '
        'distinct = distinct descriptor')
ASSUMPTIONS = [
    'reference = a Python list driven with the same operations; an empty cadence accepts any frame, which then defines the '
    "cadence's df/dt/fchans/fmin (the reference frame is re-derived from the first member after every step)",
    'a frame "differs" when the attribute values compare unequal (exact comparison, as the property says "differs"); the '
    'smallest difference offered is 1e-7 relative (df, dt), one channel (fchans) and 0.01 channel (fmin)',
    'rejections: any exception type is accepted; the object must not be inside afterwards and the rest must be unchanged',
    'extend/+=/construction with an unacceptable element mid-way: both "prefix added" and "nothing added" are accepted (with or '
    'without labels on the prefix); slice assignment may behave like a list or raise without change',
    'where the list itself raises (index out of range for item assignment, del, pop; non-iterable extend) only "unchanged" is '
    'demanded of a mutation, a raise is demanded of a selection',
    'ordered cadence: the label position is the position the frame actually occupies after the operation (list clamping '
    'for insert); if that position has no letter (p >= len(order)) the accepted outcome is a raise without change; a frame '
    'offered to an operation that does not add it must stay unlabelled',
    'set_order with an order shorter than the cadence: any mixture of old and positional new labels and either order string '
    'is accepted afterwards; a frame held at several positions may carry the letter of any of them',
    'aggregates: tchans exact; obs_range and slew_times within 4 ulp of the largest time involved (two roundings in t_stop, '
    'one in the difference); the empty cadence may report None or 0',
    'index arrays are lists and integer ndarrays (tuples, boolean masks and float arrays are not offered)',
]


# ------------------------------------------------------------------ reference model (R-LIST)

class Cand:
    """One acceptable outcome: raised in {True, False, None=either}, resulting items, allowed labels per frame
    (frames not mentioned must keep their label), allowed order strings (None = unchanged)."""

    def __init__(self, raised, items, labelsets=None, orders=None):
        self.raised, self.items, self.labelsets, self.orders = raised, list(items), dict(labelsets or {}), orders


class Expect:
    def __init__(self, cands, why=None, ret=None, offered=None):
        self.cands, self.why, self.ret, self.offered = cands, why, ret, offered


def idx_class(i, n):
    if i == n:
        return '=len'
    if i > n:
        return '>len'
    if i >= 0:
        return 'in+'
    if i == -n:
        return '=-len'
    if i > -n:
        return 'in-'
    return '<-len'


class Model:
    """Guarded list of pool indices with the label book of an ordered cadence."""

    def __init__(self, isframe, sig, what, ordered, order):
        self.isframe, self.sig, self.what = isframe, sig, what
        self.ordered, self.order = ordered, order
        self.items = []
        self.labels = {k: None for k in range(len(isframe)) if isframe[k]}

    # -- guard, written from the property text
    def guard(self, items, x):
        if not self.isframe[x]:
            return 'non-frame:' + self.what[x]
        if items:
            ref = self.sig[items[0]]
            diff = [a for a, u, v in zip(GUARD, self.sig[x], ref) if u != v]
            if diff:
                return 'differs:' + '+'.join(diff)
        return None

    def _place(self, items, labels, order, p, x, replace):
        why = self.guard(items, x)
        if why:
            return why
        if self.ordered and labels[x] is None:
            if p >= len(order):
                return 'beyond-order'
            labels[x] = order[p]
        if replace:
            items[p] = x
        else:
            items.insert(p, x)
        return None

    def _single(self, p, x, replace):
        items, labels = list(self.items), dict(self.labels)
        why = self._place(items, labels, self.order, p, x, replace)
        if why:
            return Expect([Cand(True, self.items)], why=why, offered=x)
        ls = {x: {labels[x]}} if self.isframe[x] else {}
        return Expect([Cand(False, items, ls)], offered=x)

    def append(self, x):
        return self._single(len(self.items), x, False)

    def insert(self, i, x):
        n = len(self.items)
        p = min(max(i + n if i < 0 else i, 0), n)
        return self._single(p, x, False)

    def setitem(self, i, x):
        n = len(self.items)
        why = self.guard(self.items, x)
        if why:
            return Expect([Cand(True, self.items)], why=why, offered=x)
        if not -n <= i < n:
            return Expect([Cand(None, self.items)], why='list-raises', offered=x)
        return self._single(i + n if i < 0 else i, x, True)

    def _sequence(self, start_items, start_labels, order, xs):
        """Sequential appends; returns (items, labels, why, k) with k = number of elements placed."""
        items, labels = list(start_items), dict(start_labels)
        for k, x in enumerate(xs):
            why = self._place(items, labels, order, len(items), x, False)
            if why:
                return items, labels, why, k
        return items, labels, None, len(xs)

    def extend(self, xs):
        items, labels, why, k = self._sequence(self.items, self.labels, self.order, xs)
        ls = {x: {self.labels[x], labels[x]} for x in xs[:k] if self.isframe[x]}
        if why:
            return Expect([Cand(True, items, ls), Cand(True, self.items, ls)], why=why, offered=xs[k])
        return Expect([Cand(False, items, {x: {labels[x]} for x in xs if self.isframe[x]})])

    def construct(self, xs, order):
        """Returns the expectation for the *old* cadence (unchanged) and, on success, the fresh model state."""
        items, labels, why, k = self._sequence([], self.labels, order, xs)
        if why:
            ls = {x: {self.labels[x], labels[x]} for x in xs[:k] if self.isframe[x]}
            return Expect([Cand(True, self.items, ls)], why=why, offered=xs[k]), None
        return Expect([Cand(False, items, {x: {labels[x]} for x in xs if self.isframe[x]}, {order})]), (items, labels)

    def setslice(self, sl, xs):
        bad = None
        rest = list(self.items)
        try:
            rest[sl] = [None] * len(xs)
        except ValueError:
            return Expect([Cand(None, self.items)], why='list-raises')
        remaining = [r for r in rest if r is not None]
        for x in xs:
            if not self.isframe[x]:
                bad = bad or 'non-frame:' + self.what[x]
            else:
                ref = remaining[0] if remaining else next((y for y in xs if self.isframe[y]), x)
                diff = [a for a, u, v in zip(GUARD, self.sig[x], self.sig[ref]) if u != v]
                if diff:
                    bad = bad or 'differs:' + '+'.join(diff)
        if bad:
            return Expect([Cand(True, self.items)], why=bad)
        new = list(self.items)
        new[sl] = xs
        anyl = {x: {self.labels[x]} | (set(self.order) if self.ordered else set()) for x in xs}
        return Expect([Cand(True, self.items), Cand(False, new, anyl)], why='slice-assignment')

    def delitem(self, i):
        n = len(self.items)
        if not -n <= i < n:
            return Expect([Cand(None, self.items)], why='list-raises')
        new = list(self.items)
        del new[i]
        return Expect([Cand(False, new)])

    def delslice(self, sl):
        new = list(self.items)
        del new[sl]
        return Expect([Cand(False, new)])

    def pop(self, i):
        n = len(self.items)
        j = -1 if i is None else i
        if not -n <= j < n:
            return Expect([Cand(None, self.items)], why='list-raises')
        new = list(self.items)
        r = new.pop(j)
        return Expect([Cand(False, new)], ret=r)

    def set_order(self, new):
        pos = {}
        for p, x in enumerate(self.items):
            pos.setdefault(x, []).append(p)
        if len(new) >= len(self.items):
            return Expect([Cand(False, self.items, {x: {new[p] for p in ps} for x, ps in pos.items()}, {new})])
        ls = {x: {self.labels[x]} | {new[p] for p in ps if p < len(new)} for x, ps in pos.items()}
        return Expect([Cand(None, self.items, ls, {self.order, new})], why='order-shorter-than-cadence')

    def by_label(self, lab):
        return [x for x in self.items if self.labels[x] == lab]

    def adopt(self, items, labels, order):
        self.items = list(items)
        for k in self.labels:
            self.labels[k] = labels.get(k)
        if self.ordered:
            self.order = order


# ------------------------------------------------------------------ workload generator

class Rnd:
    """Scalar draws with the numpy Generator vocabulary on top of random.Random (10x faster for this generator)."""

    def __init__(self, *seed):
        self.r = random.Random(repr(seed))

    def random(self):
        return self.r.random()

    def uniform(self, a, b):
        return self.r.uniform(a, b)

    def integers(self, a, b=None, size=None):
        if b is None:
            a, b = 0, a
        if size is None:
            return self.r.randrange(a, b)
        return [self.r.randrange(a, b) for _ in range(size)]

    def choice(self, n, p=None, size=None, replace=True):
        if size is not None and not replace:
            return self.r.sample(range(n), size)
        return self.r.choices(range(n), weights=p)[0]

    def permutation(self, n):
        v = list(range(n))
        self.r.shuffle(v)
        return v


def pick(rng, seq):
    return seq[rng.integers(len(seq))]


def abstract_sig(p):
    alt = p.get('alt', {})
    return tuple(alt.get(a, '') for a in GUARD)


def gen_pool(rng, i, ordered):
    pool = []
    n_ok = int(rng.integers(4, 11)) + (4 if ordered else 0)
    t = 0.0
    for k in range(n_ok):
        t += float(rng.uniform(5.0, 4000.0))
        pool.append(dict(kind='ok', tchans=int(rng.integers(1, 9)), t0=round(t, 3), flip=bool(rng.random() < 0.2),
                         sub=bool(rng.random() < 0.1)))
    for a in GUARD:
        pool.append(dict(kind='bad', alt={a: ['small', 'large'][common.stratum(i, 181 + GUARD.index(a), 2)]}, tchans=int(rng.integers(1, 9)),
                         t0=round(float(rng.uniform(0, 40000)), 3)))
    tw = dict(pool[n_ok + int(rng.integers(4))])
    tw.update(t0=round(float(rng.uniform(0, 40000)), 3), tchans=int(rng.integers(1, 9)))
    pool.append(tw)
    if common.stratum(i, 186, 3) == 0:
        a, b = rng.choice(4, size=2, replace=False)
        pool.append(dict(kind='bad', alt={GUARD[int(a)]: 'large', GUARD[int(b)]: 'small'}, tchans=2, t0=123.5))
    k0 = common.stratum(i, 187, len(NONFRAMES))
    for k in range(int(rng.integers(3, 6))):
        pool.append(dict(kind='non', what=NONFRAMES[(k0 + k) % len(NONFRAMES)]))
    perm = rng.permutation(len(pool))
    return [pool[int(j)] for j in perm]


def index_of_class(rng, cls, n):
    if cls == 'in+' and n > 0:
        return int(rng.integers(0, n))
    if cls == 'in-' and n > 1:
        return -int(rng.integers(1, n))
    if cls == '=-len' and n > 0:
        return -n
    if cls == '>len':
        return n + int(rng.integers(1, 7))
    if cls == '<-len':
        return -n - int(rng.integers(1, 7))
    return n


def rand_slice(rng, n):
    def end():
        r = rng.random()
        if r < 0.25:
            return None
        return int(rng.integers(-n - 3, n + 4))
    step = pick(rng, [None, None, 1, 2, 3, -1, -2])
    return [end(), end(), step]


class Steer:
    """Chooses operations with the abstract model so that the strata are reached."""

    def __init__(self, rng, pool, ordered, order):
        self.rng, self.pool, self.ordered = rng, pool, ordered
        isframe = [p['kind'] != 'non' for p in pool]
        sig = [abstract_sig(p) if p['kind'] != 'non' else None for p in pool]
        what = [p.get('what') for p in pool]
        self.m = Model(isframe, sig, what, ordered, order)
        self.frames = [k for k, f in enumerate(isframe) if f]
        self.nons = [k for k, f in enumerate(isframe) if not f]

    def offer(self, cls=None, items=None):
        rng, m = self.rng, self.m
        items = m.items if items is None else items
        if cls is None:
            cls = ['fresh', 'dup', 'labelled', 'bad', 'non'][int(rng.choice(5, p=[0.45, 0.08, 0.12, 0.2, 0.15]))]
        if items:
            ref = m.sig[items[0]]
            comp = [x for x in self.frames if m.sig[x] == ref]
        else:
            comp = list(self.frames)
        if not items and rng.random() > 0.3:
            comp = [x for x in comp if self.pool[x]['kind'] == 'ok'] or comp
        if cls == 'non':
            return int(pick(rng, self.nons))
        if cls == 'bad':
            inc = [x for x in self.frames if x not in comp]
            if inc:
                return int(pick(rng, inc))
        if cls == 'dup':
            d = [x for x in comp if x in items]
            if d:
                return int(pick(rng, d))
        if cls == 'labelled':
            d = [x for x in comp if x not in items and m.labels[x] is not None]
            if d:
                return int(pick(rng, d))
        d = [x for x in comp if x not in items and (not self.ordered or m.labels[x] is None)]
        if not d:
            d = [x for x in comp if x not in items] or comp
        return int(pick(rng, d))

    def offer_seq(self, k, spoil):
        """k elements acceptable in sequence to the current cadence; spoil = None | 'mid' | 'first' | 'last'."""
        sim = list(self.m.items)
        xs = []
        for _ in range(k):
            x = self.offer(pick(self.rng, ['fresh', 'fresh', 'fresh', 'dup', 'labelled']), items=sim)
            xs.append(x)
            sim.append(x)
        if spoil and xs:
            pos = {'first': 0, 'last': len(xs) - 1}.get(spoil, int(self.rng.integers(len(xs))))
            xs[pos] = self.offer(pick(self.rng, ['bad', 'non']), items=sim[:len(self.m.items) + pos] or sim[:1])
        return xs

    def new_order(self, n):
        rng = self.rng
        r = rng.random()
        if r < 0.35:
            return str(pick(rng, ORDERS))
        ln = n if r < 0.55 else (max(0, n - int(rng.integers(1, 3))) if r < 0.7 else n + int(rng.integers(1, 6)))
        return ''.join(pick(rng, 'ABCD') for _ in range(ln))

    def make(self, name, icls=None, ocls=None):
        rng, m = self.rng, self.m
        n = len(m.items)
        if name == 'append':
            return dict(op='append', x=self.offer(ocls))
        if name in ('insert', 'setitem'):
            icls = icls or pick(rng, IDX_CLASSES)
            return dict(op=name, i=index_of_class(rng, icls, n), x=self.offer(ocls))
        if name in ('delitem', 'getint'):
            icls = icls or pick(rng, ['in+', 'in+', 'in-', 'in-', '=-len', '=len', '>len', '<-len'])
            return dict(op=name, i=index_of_class(rng, icls, n))
        if name == 'pop':
            if icls is None and rng.random() < 0.4:
                return dict(op='pop', i=None)
            icls = icls or pick(rng, ['in+', 'in+', 'in-', 'in-', '=-len', '=len', '>len', '<-len'])
            return dict(op='pop', i=index_of_class(rng, icls, n))
        if name in ('delslice', 'getslice'):
            return dict(op=name, sl=rand_slice(rng, n))
        if name in ('extend', 'iadd', 'construct'):
            k = int(rng.integers(0, 6))
            spoil = None
            if ocls in ('bad', 'non') or (ocls is None and rng.random() < 0.3):
                spoil = pick(rng, ['mid', 'mid', 'first', 'last'])
                k = max(k, 1)
            form = pick(rng, FORMS)
            if name == 'construct':
                keep = m.items
                m.items = []
                xs = self.offer_seq(k + int(rng.integers(0, 4)), spoil)
                m.items = keep
                d = dict(op='construct', xs=xs, form=form, overwrite=bool(rng.random() < 0.15),
                         t_slew=float(pick(rng, [0.0, 15.0, 2.5])))
                if self.ordered:
                    d['order'] = self.new_order(len(xs))
                if form == 'cadence' and spoil:
                    d['form'] = 'list'
                return d
            if name == 'extend' and spoil is None and len(m.items) <= 24 and rng.random() < 0.12:
                return dict(op='extend', xs=list(m.items), form='self')
            xs = self.offer_seq(k, spoil)
            if name == 'iadd':
                form = pick(rng, ['list', 'tuple', 'ndarray'])
            if form == 'cadence' and spoil:
                form = 'gen'
            return dict(op=name, xs=xs, form=form)
        if name == 'setslice':
            sl = rand_slice(rng, n)
            spoil = pick(rng, [None, None, 'mid'])
            keep = m.items
            m.items = list(m.items[:1])
            xs = self.offer_seq(int(rng.integers(0, 4)), spoil)
            m.items = keep
            return dict(op='setslice', sl=sl, xs=xs)
        if name == 'extend_str':
            return dict(op='extend_str', s=str(pick(rng, ['A', 'frame', 'AB'])))
        if name == 'extend_frame':
            return dict(op='extend_frame', x=self.offer('fresh'))
        if name == 'getidx':
            r = rng.random()
            k = int(rng.integers(0, 6))
            if n == 0 or r < 0.15:
                idx = [int(v) for v in rng.integers(-n - 2, n + 3, size=k)]
            else:
                idx = [int(v) for v in rng.integers(-n, n, size=k)]
            if n > 0 and r >= 0.75:
                # a boolean index array (one flag per member, e.g. the result of a comparison over the members) selects the
                # members at its True positions
                mask = [bool(v) for v in rng.integers(0, 2, size=n)]
                return dict(op='getidx', idx=[p for p, v in enumerate(mask) if v], form='mask', mask=mask)
            form = pick(rng, ['list', 'list', 'int64', 'int32', 'uint8', 'intp'])
            if form == 'uint8':
                idx = [abs(v) for v in idx]
                if any(v > 255 for v in idx):
                    form = 'int64'
            return dict(op='getidx', idx=idx, form=form)
        if name == 'by_label':
            letters = sorted(set(m.order) | {v for v in m.labels.values() if v}) + ['Z']
            return dict(op='by_label', label=str(pick(rng, letters)))
        if name == 'set_order':
            return dict(op='set_order', order=self.new_order(n))
        raise ValueError(name)

    def advance(self, op):
        """Mirror the primary expected outcome on the abstract model."""
        m = self.m
        name = op['op']
        exp = None
        if name == 'append':
            exp = m.append(op['x'])
        elif name == 'insert':
            exp = m.insert(op['i'], op['x'])
        elif name == 'setitem':
            exp = m.setitem(op['i'], op['x'])
        elif name == 'delitem':
            exp = m.delitem(op['i'])
        elif name == 'delslice':
            exp = m.delslice(slice(*op['sl']))
        elif name == 'pop':
            exp = m.pop(op['i'])
        elif name in ('extend', 'iadd'):
            exp = m.extend(op['xs'])
        elif name == 'set_order':
            exp = m.set_order(op['order'])
        elif name == 'construct':
            exp, fresh = m.construct(op['xs'], op.get('order', m.order))
            if fresh is not None:
                m.items, m.labels = fresh[0], fresh[1]
                if m.ordered:
                    m.order = op['order']
            else:
                for x, s in exp.cands[0].labelsets.items():
                    m.labels[x] = sorted(s, key=lambda v: v is None)[0]
            return
        if exp is None:
            return
        c = exp.cands[0]
        m.items = list(c.items)
        for x, s in c.labelsets.items():
            cand = sorted(s - {m.labels[x]}) if len(s) > 1 else sorted(s, key=str)
            m.labels[x] = cand[0] if cand else m.labels[x]
        if c.orders and len(c.orders) == 1:
            m.order = next(iter(c.orders))


def focus_list(ordered):
    f = []
    for op in ('insert', 'setitem'):
        for ic in IDX_CLASSES:
            for oc in ('fresh', 'dup', 'labelled', 'bad', 'non'):
                f.append((op, ic, oc))
    for oc in ('fresh', 'dup', 'labelled', 'bad', 'non'):
        f.append(('append', None, oc))
    for op in ('extend', 'iadd', 'construct'):
        for oc in ('fresh', 'bad', 'non'):
            f.append((op, None, oc))
    for op in ('delitem', 'pop', 'getint'):
        for ic in IDX_CLASSES:
            f.append((op, ic, None))
    for op in ('delslice', 'getslice', 'getidx', 'setslice', 'extend_str', 'extend_frame'):
        f.append((op, None, None))
    if ordered:
        f += [('by_label', None, None), ('set_order', None, None)] * 3
    return f


def gen_cases(seed, tier):
    rng = Rnd(seed, 18)
    n = 4000 if tier == 'quick' else 180000
    max_ops = 40 if tier == 'quick' else 80
    foc = {False: focus_list(False), True: focus_list(True)}
    cases = []
    for i in range(n):
        ordered = bool(i % 2)
        j = i // 2
        fl = foc[ordered]
        focus = common.stratum(j, 188, fl)
        order = common.stratum(j, 189, ORDERS) if ordered else None
        if ordered and common.stratum(j, 190, 7) == 3:
            order = ''.join(pick(rng, 'ABCD') for _ in range(int(rng.integers(1, 16))))
        pool = gen_pool(rng, i, ordered)
        geom = dict(fchans=int(pick(rng, [4, 8, 16, 32, 5])), df=float(pick(rng, common.UGLY_DF)),
                    dt=float(pick(rng, common.UGLY_DT)), fch1=float(pick(rng, common.UGLY_FCH1)),
                    asc=bool(rng.random() < 0.4))
        st = Steer(rng, pool, ordered, order)
        nops = int(rng.integers(6, max_ops + 1))
        weights = dict(append=10, insert=14, setitem=9, delitem=5, delslice=2, pop=5, extend=6, iadd=3, construct=2,
                       setslice=1, extend_str=0.5, extend_frame=0.5, getint=4, getslice=4, getidx=4)
        if ordered:
            weights.update(by_label=6, set_order=2)
        names = list(weights)
        pw = [float(weights[k]) for k in names]
        ops = []
        warm = int(rng.integers(1, 5))
        for s in range(nops):
            if s < warm and len(st.m.items) < 3:
                op = st.make(pick(rng, ['append', 'append', 'extend']), ocls='fresh')
            elif s == warm or rng.random() < 0.2:
                op = st.make(*focus)
            else:
                op = st.make(names[int(rng.choice(len(names), p=pw))])
            ops.append(op)
            st.advance(op)
        cases.append(dict(kind='ordered' if ordered else 'plain', order=order, geom=geom, pool=pool, ops=ops,
                          focus=[focus[0], focus[1] or '', focus[2] or '']))
    return cases


# ------------------------------------------------------------------ worker side

def build_pool(stg, c):
    g = c['geom']
    base = stg.Frame(fchans=g['fchans'], tchans=1, df=g['df'], dt=g['dt'], fch1=g['fch1'], ascending=g['asc'], t_start=0.0)
    fmin_ref = float(base.fmin)

    class SubFrame(stg.Frame):
        pass

    made = [0]

    def ok_frame(p):
        cls = SubFrame if p.get('sub') else stg.Frame
        made[0] += 1
        if not p.get('sub') and not p.get('flip') and made[0] % 3 == 0:
            # every third compatible frame comes from the from_data route WITHOUT a metadata argument (default argument), the
            # next ones could share whatever that route shares between calls
            return stg.Frame.from_data(g['df'], g['dt'], g['fch1'], g['asc'], np.zeros((p['tchans'], g['fchans'])))
        if p.get('flip') and not g['asc']:
            return cls(fchans=g['fchans'], tchans=p['tchans'], df=g['df'], dt=g['dt'], fch1=fmin_ref, ascending=True,
                       t_start=1.7e9 + p['t0'])
        return cls(fchans=g['fchans'], tchans=p['tchans'], df=g['df'], dt=g['dt'], fch1=g['fch1'], ascending=g['asc'],
                   t_start=1.7e9 + p['t0'])

    objs, isframe, sig, what = [], [], [], []
    for p in c['pool']:
        if p['kind'] == 'ok':
            o = ok_frame(p)
        elif p['kind'] == 'bad':
            alt = p['alt']
            df, dt, fch, f0 = g['df'], g['dt'], g['fchans'], fmin_ref
            if 'df' in alt:
                df = df * (1 + 1e-7) if alt['df'] == 'small' else df * 2
            if 'dt' in alt:
                dt = dt * (1 + 1e-7) if alt['dt'] == 'small' else dt * 0.5
            if 'fchans' in alt:
                fch = fch + 1 if alt['fchans'] == 'small' else fch * 2
            if 'fmin' in alt:
                f0 = f0 + (0.01 if alt['fmin'] == 'small' else 3.0) * g['df']
            o = stg.Frame(fchans=fch, tchans=p['tchans'], df=df, dt=dt, fch1=f0, ascending=True, t_start=1.7e9 + p['t0'])
        else:
            w = p['what']
            helper = ok_frame(dict(tchans=2, t0=77.0))
            o = {'none': None, 'ndarray': np.zeros((2, 3)), 'str': 'frame', 'int': 7, 'list': [helper],
                 'class': stg.Frame, 'dict': {'df': g['df'], 'dt': g['dt'], 'fchans': g['fchans'], 'fmin': fmin_ref}}.get(w)
            if w == 'cadence':
                o = stg.Cadence([helper])
            elif w == 'duck':
                o = types.SimpleNamespace(df=base.df, dt=base.dt, fchans=base.fchans, fmin=base.fmin, tchans=2,
                                          t_start=1.7e9, t_stop=1.7e9 + 2 * base.dt, metadata={})
        objs.append(o)
        fr = p['kind'] != 'non'
        isframe.append(fr)
        what.append(p.get('what'))
        sig.append(tuple(getattr(o, a) for a in GUARD) if fr else None)
    # harness sanity: the pool realises its descriptor (otherwise the buckets would lie)
    ref = (base.df, base.dt, base.fchans, base.fmin)
    for p, s in zip(c['pool'], sig):
        if s is None:
            continue
        diff = {a for a, u, v in zip(GUARD, s, ref) if u != v}
        if diff != set(p.get('alt', {})):
            raise RuntimeError(f'pool frame does not realise its descriptor: {p} differs in {diff}')
    return objs, isframe, sig, what


def container(stg, form, elems):
    if form == 'list':
        return list(elems)
    if form == 'tuple':
        return tuple(elems)
    if form == 'gen':
        return (e for e in elems)
    if form == 'ndarray':
        a = np.empty(len(elems), dtype=object)
        for k, e in enumerate(elems):
            a[k] = e
        return a
    if form == 'cadence':
        return stg.Cadence(list(elems))
    raise ValueError(form)


class Run:
    def __init__(self, stg, c, R):
        self.stg, self.c, self.R = stg, c, R
        self.objs, isframe, sig, what = build_pool(stg, c)
        self.ordered = c['kind'] == 'ordered'
        self.m = Model(isframe, sig, what, self.ordered, c['order'])
        self.idmap = {id(o): k for k, o in enumerate(self.objs)}
        self.cad = stg.OrderedCadence(order=c['order']) if self.ordered else stg.Cadence()
        self.seen = {}
        self.fcache = {}
        self.accepted = self.rejected = 0
        self.maxlen = 0
        self.dead = False

    # -- reporting with per-case de-duplication of keys
    def viol(self, key, **detail):
        self.seen[key] = self.seen.get(key, 0) + 1
        if self.seen[key] <= 1:
            self.R.violate(key, **detail)
        else:
            self.R.count('repeated_violations')

    def ok(self, cond, key, **detail):
        if cond:
            self.R.check(True, key)
        else:
            self.viol(key, **detail)
        return cond

    # -- observation
    def observe(self):
        cad = self.cad
        n = len(cad)
        items = []
        for k in range(n):
            o = cad[k]
            if id(o) not in self.idmap:
                return None, None, None
            items.append(self.idmap[id(o)])
        labels = {k: self.objs[k].metadata.get('order_label') for k in self.m.labels}
        return items, labels, (cad.order if self.ordered else None)

    def match(self, cand, raised, items, labels, order):
        m = self.m
        if cand.raised is not None and cand.raised != raised:
            return False
        if items != cand.items:
            return False
        if self.ordered:
            for k, old in m.labels.items():
                if labels[k] not in cand.labelsets.get(k, {old}):
                    return False
            if order not in (cand.orders or {m.order}):
                return False
        return True

    def judge(self, name, icls, exp, exc, step):
        """Compare the post-state with the acceptable outcomes; returns True when one matched."""
        R, m = self.R, self.m
        raised = exc is not None
        items, labels, order = self.observe()
        if items is None:
            self.viol(f'foreign-object-in-cadence:{name}', step=step)
            self.dead = True
            return False
        ctx = name + (':' + icls if icls else '')
        R.count('states_compared')
        for cand in exp.cands:
            if self.match(cand, raised, items, labels, order):
                R.check(True, 'state:' + name)
                m.adopt(items, labels, order)
                return True
        prim = exp.cands[0]
        x = exp.offered
        detail = dict(step=step, op=self.c['ops'][step] if step >= 0 else 'init', raised=repr(exc)[:200] if raised else None,
                      got=items, want=prim.items, before=m.items, order=m.order,
                      label_before=m.labels.get(x) if x is not None else None,
                      label_after=labels.get(x) if x is not None else None,
                      label_want=sorted(map(str, prim.labelsets.get(x, []))) if x is not None else None)
        why = exp.why or ''
        changed = items != m.items
        lab_changed = [k for k, old in m.labels.items() if labels[k] != old] if self.ordered else []
        if why.startswith(('non-frame', 'differs')):
            kind = 'non-frame' if why.startswith('non-frame') else why
            if not raised:
                key = f'guard-accepted:{name}:{kind}'
            elif changed:
                key = f'guard-raised-but-changed:{name}:{kind}'
            else:
                key = f'guard-rejected-object-side-effect:{name}'
            detail['why'] = why
        elif why == 'beyond-order':
            key = f'no-letter-for-position:{name}:' + ('accepted' if not raised else 'changed')
        elif why == 'list-raises':
            if changed and self.ordered and name == 'setitem':
                key = 'ordered-setitem-index-not-validated:other-element-replaced'
            elif changed:
                key = f'list-content:{ctx}'
            elif name == 'setitem' and x in lab_changed:
                key = 'ordered-setitem-index-not-validated:rejected-frame-labelled'
            else:
                key = f'side-effect-where-list-raises:{ctx}'
        elif why == 'slice-assignment':
            key = 'slice-assignment-neither-list-like-nor-unchanged'
        elif why == 'order-shorter-than-cadence':
            key = 'set-order:short-order'
        elif name == 'set_order':
            key = 'set-order:' + ('raises' if raised else ('list-changed' if changed else 'labels-not-positional'))
        else:
            clamp = self.ordered and name == 'insert' and icls in ('>len', '<-len')
            if raised:
                key = 'ordered-insert-index-not-clamped' if clamp else f'spurious-raise:{ctx}'
            elif items != prim.items:
                key = 'ordered-insert-index-not-clamped' if clamp else f'list-content:{ctx}'
            else:
                badl = [k for k, old in m.labels.items() if labels[k] not in prim.labelsets.get(k, {old})] \
                    if self.ordered else []
                placed = [k for k in badl if k in prim.labelsets]
                detail['wrong_labels'] = {str(k): [m.labels[k], labels[k], sorted(map(str, prim.labelsets.get(k, [])))]
                                          for k in badl[:6]}
                if any(m.labels[k] is None for k in placed):
                    key = 'ordered-insert-index-not-clamped' if clamp else f'label-at-insertion-position:{ctx}'
                elif placed:
                    key = f'labelled-frame-relabelled:{name}'
                elif badl:
                    key = f'other-frame-label-changed:{name}'
                else:
                    key = f'order-string-changed:{name}'
        self.viol(key, **detail)
        m.adopt(items, labels, order)
        if any(not m.isframe[k] for k in items) or len({m.sig[k] for k in items}) > 1:
            # a non-frame or an inconsistent frame is inside: the premise of every later step is gone
            self.R.count('histories_cut_after_broken_guard')
            self.dead = True
        return False

    # -- aggregates against the member frames
    def aggregates(self, step):
        cad, m, R = self.cad, self.m, self.R
        mem = [self.objs[k] for k in m.items]
        n = len(mem)
        try:
            tch, rng_, sl, t0 = cad.tchans, cad.obs_range, cad.slew_times, cad.t_start
            gattr = {a: getattr(cad, a) for a in GUARD}
        except Exception as e:  # noqa
            self.viol('aggregate:raises', step=step, exc=repr(e)[:200], n=n)
            return
        R.count('aggregate_evals')
        if n == 0:
            self.ok(tch in (None, 0), 'aggregate:tchans:empty', got=tch)
            self.ok(rng_ in (None, 0), 'aggregate:obs_range:empty', got=rng_)
            self.ok(sl is None or len(sl) == 0, 'aggregate:slew_times:empty')
            return
        want = sum(int(f.tchans) for f in mem)
        self.ok(tch == want, 'aggregate:tchans', got=tch, want=want, n=n, step=step)
        self.ok(t0 == mem[0].t_start, 'aggregate:t_start', got=t0, want=mem[0].t_start, step=step)
        for a in GUARD:
            self.ok(all(gattr[a] == getattr(f, a) for f in mem), 'aggregate:guarded-attribute:' + a, got=gattr[a], step=step)

        cache = self.fcache

        def stop(f):
            k = (float(f.t_start), int(f.tchans), float(f.dt))
            v = cache.get(k)
            if v is None:
                v = cache[k] = Fraction(k[0]) + k[1] * Fraction(k[2])
            return v
        big = max(abs(float(stop(f))) for f in mem)
        tol = 4 * common.ulp(max(big, abs(float(mem[0].t_start))))
        w = stop(mem[-1]) - Fraction(float(mem[0].t_start))
        err = abs(Fraction(float(rng_)) - w)
        R.maximum('obs_range_err_over_bound', float(err) / tol)
        self.ok(err <= tol, 'aggregate:obs_range', got=float(rng_), want=float(w), n=n, step=step)
        sl = np.asarray(sl)
        if self.ok(sl.shape == (n - 1,), 'aggregate:slew_times:length', shape=list(sl.shape), n=n, step=step) and n > 1:
            ws = [Fraction(float(mem[k].t_start)) - stop(mem[k - 1]) for k in range(1, n)]
            errs = [abs(Fraction(float(sl[k])) - ws[k]) for k in range(n - 1)]
            R.maximum('slew_err_over_bound', float(max(errs)) / tol)
            self.ok(max(errs) <= tol, 'aggregate:slew_times:value', got=sl.tolist(), want=[float(v) for v in ws], step=step)
        if n >= 2 and len({int(f.tchans) for f in mem}) > 1:
            R.bucket('aggregate:members-with-different-tchans')

    def iteration(self, step):
        """iter(cadence) (bounded) yields the same objects as indexing."""
        want = [self.objs[k] for k in self.m.items]
        try:
            got = list(itertools.islice(iter(self.cad), len(want) + 5))
        except Exception as e:  # noqa
            self.viol('iteration:raises', exc=repr(e)[:200], step=step)
            return
        self.ok(len(got) == len(want) and all(a is b for a, b in zip(got, want)), 'iteration:differs-from-indexing',
                n=len(want), got=len(got), step=step)

    def res_items(self, res):
        out = []
        for k in range(len(res)):
            out.append(self.idmap.get(id(res[k]), -1))
        return out

    # -- one step
    def step(self, s, op):
        stg, R, m, cad, objs = self.stg, self.R, self.m, self.cad, self.objs
        name = op['op']
        n = len(m.items)
        icls = idx_class(op['i'], n) if op.get('i') is not None else None
        R.bucket('op:' + name)
        if icls:
            R.bucket(f'idx:{name}:{icls}')
        exc = None
        unchanged = Expect([Cand(None, m.items)])

        def offer_bucket(x, exp):
            if exp.why and exp.why.startswith('non-frame'):
                R.bucket(f'reject:{name}:non-frame')
                R.bucket('nonframe:' + m.what[x])
            elif exp.why and exp.why.startswith('differs'):
                R.bucket(f'reject:{name}:differs')
                for a in exp.why[8:].split('+'):
                    R.bucket('reject-attr:' + a)
                if '+' not in exp.why:
                    R.bucket(f'reject-single:{name}:{exp.why[8:]}')
            elif exp.why == 'beyond-order':
                R.bucket('beyond-order:' + name)
            elif exp.why is None and x is not None:
                if not m.items and any(u != v for u, v in zip(m.sig[x], self.ref_sig)):
                    R.bucket('empty-accepts-any')
                if x in m.items:
                    R.bucket('offer:duplicate')
                if self.ordered:
                    if m.labels[x] is None:
                        R.bucket('label:fresh')
                        if icls:
                            R.bucket(f'label:fresh:{name}:{icls}')
                    else:
                        R.bucket('label:sticky')

        if name in ('append', 'insert', 'setitem'):
            x = op['x']
            exp = m.append(x) if name == 'append' else (m.insert(op['i'], x) if name == 'insert' else m.setitem(op['i'], x))
            offer_bucket(x, exp)
            try:
                if name == 'append':
                    cad.append(objs[x])
                elif name == 'insert':
                    cad.insert(op['i'], objs[x])
                else:
                    cad[op['i']] = objs[x]
            except Exception as e:  # noqa
                exc = e
            okm = self.judge(name, icls, exp, exc, s)
            if exp.why in (None,) and okm:
                self.accepted += 1
            if exp.cands[0].raised is True and okm:
                self.rejected += 1
        elif name in ('extend', 'iadd'):
            xs = list(m.items) if op['form'] == 'self' else op['xs']
            exp = m.extend(xs)
            if exp.why:
                offer_bucket(exp.offered, exp)
                R.bucket(f'{name}:bad-element:' + ('first' if xs.index(exp.offered) == 0 else 'later'))
            R.bucket(f'form:{name}:{op["form"]}')
            arg = cad if op['form'] == 'self' else None
            if arg is None:
                try:
                    arg = container(stg, op['form'], [objs[x] for x in xs])
                except Exception:
                    arg = [objs[x] for x in xs]
            try:
                if name == 'extend':
                    cad.extend(arg)
                else:
                    before = cad
                    cad += arg
                    self.ok(cad is before, 'iadd-returns-other-object', step=s)
                    self.cad = cad = before
            except Exception as e:  # noqa
                exc = e
            okm = self.judge(name, None, exp, exc, s)
            if okm and exp.why is None and xs:
                self.accepted += 1
            if okm and exp.why:
                self.rejected += 1
        elif name == 'extend_str':
            exp = Expect([Cand(True, m.items)], why='non-frame:str')
            R.bucket(f'reject:{name}:non-frame')
            try:
                cad.extend(op['s'])
            except Exception as e:  # noqa
                exc = e
            if self.judge(name, None, exp, exc, s):
                self.rejected += 1
        elif name == 'extend_frame':
            exp = Expect([Cand(None, m.items)], why='list-raises', offered=op['x'])
            try:
                cad.extend(objs[op['x']])
            except Exception as e:  # noqa
                exc = e
            self.judge(name, None, exp, exc, s)
        elif name == 'setslice':
            xs = op['xs']
            exp = m.setslice(slice(*op['sl']), xs)
            try:
                cad[slice(*op['sl'])] = [objs[x] for x in xs]
            except Exception as e:  # noqa
                exc = e
            self.judge(name, None, exp, exc, s)
        elif name == 'delitem':
            exp = m.delitem(op['i'])
            try:
                del cad[op['i']]
            except Exception as e:  # noqa
                exc = e
            self.judge(name, icls, exp, exc, s)
        elif name == 'delslice':
            exp = m.delslice(slice(*op['sl']))
            try:
                del cad[slice(*op['sl'])]
            except Exception as e:  # noqa
                exc = e
            self.judge(name, None, exp, exc, s)
        elif name == 'pop':
            exp = m.pop(op['i'])
            ret = None
            try:
                ret = cad.pop() if op['i'] is None else cad.pop(op['i'])
            except Exception as e:  # noqa
                exc = e
            if self.judge(name, icls, exp, exc, s) and exp.ret is not None:
                self.ok(ret is objs[exp.ret], 'pop-returns-other-object:' + (icls or 'default'), step=s)
        elif name == 'construct':
            xs = op['xs']
            exp, fresh = m.construct(xs, op.get('order', m.order))
            if exp.why:
                offer_bucket(exp.offered, exp)
            R.bucket('form:construct:' + op['form'])
            new = None
            try:
                arg = container(stg, op['form'], [objs[x] for x in xs])
            except Exception:
                arg = [objs[x] for x in xs]
            kw = dict(t_slew=op['t_slew'], t_overwrite=op['overwrite'])
            try:
                if self.ordered:
                    R.bucket('order-vs-frames:' + ('lt' if len(op['order']) < len(xs) else
                                                   ('eq' if len(op['order']) == len(xs) else 'gt')))
                    new = stg.OrderedCadence(arg, order=op['order'], **kw)
                else:
                    new = stg.Cadence(arg, **kw)
            except Exception as e:  # noqa
                exc = e
            if fresh is None:
                # no new object may exist; the old cadence must be untouched
                if new is not None:
                    kind = 'non-frame' if exp.why.startswith('non-frame') else exp.why
                    self.viol((f'guard-accepted:construct:{kind}' if exp.why != 'beyond-order'
                               else 'no-letter-for-position:construct:accepted'), step=s, why=exp.why, xs=xs,
                              got=self.res_items(new))
                    self.judge(name, None, Expect([Cand(None, m.items, exp.cands[0].labelsets)]), None, s)
                elif self.judge(name, None, exp, exc, s):
                    self.rejected += 1
            else:
                if new is None:
                    self.viol('spurious-raise:construct:' + op['form'], step=s, exc=repr(exc)[:200], xs=xs)
                    self.judge(name, None, unchanged, None, s)
                else:
                    self.cad = cad = new
                    old_items = m.items
                    m.items = []           # the new cadence starts empty
                    if self.judge(name, None, exp, None, s) and xs:
                        self.accepted += 1
                    del old_items
                    if isinstance(arg, stg.Cadence) and len(xs) >= 1 and not self.dead:
                        # built from another cadence: the two hold their frames like two lists -- what is done to the source
                        # afterwards is not done to the new one
                        R.bucket('construct:source-cadence-changed-afterwards')
                        before_new = self.res_items(new)
                        arg.pop()
                        if len(xs) >= 2:
                            arg.insert(0, arg[len(arg) - 1])
                        self.ok(self.res_items(new) == before_new, 'construct:new-cadence-shares-frame-list-with-source', step=s,
                                want=before_new, got=self.res_items(new))
        elif name == 'getint':
            i = op['i']
            got = None
            try:
                got = cad[i]
            except Exception as e:  # noqa
                exc = e
            if -n <= i < n:
                self.ok(exc is None and got is objs[m.items[i]], f'selection:int:{icls}', step=s, i=i, n=n,
                        exc=repr(exc)[:120])
            else:
                self.ok(exc is not None, f'selection:int:no-raise:{icls}', step=s, i=i, n=n)
            self.judge(name, None, unchanged, None, s)
        elif name in ('getslice', 'getidx'):
            if name == 'getslice':
                key = slice(*op['sl'])
                want = m.items[key]
                st_ = op['sl'][2]
                tag = 'selection:slice:' + ('step-' if (st_ or 1) < 0 else ('step1' if (st_ or 1) == 1 else 'step+'))
                raises = False
            else:
                idx = op['idx']
                mask = None
                if op['form'] == 'mask':
                    mask = (list(op['mask']) + [False] * n)[:n]       # one flag per member the cadence has now
                    idx = [p for p, v in enumerate(mask) if v]
                raises = any(not -n <= v < n for v in idx)
                want = None if raises else [m.items[v] for v in idx]
                dtype = op['form'] if max(idx, default=0) < 256 and mask is None else 'int64'
                if mask is not None:
                    key = np.array(mask, dtype=bool)
                    tag = 'selection:index-mask'
                else:
                    key = list(idx) if op['form'] == 'list' else np.array(idx, dtype=dtype)
                    tag = 'selection:index-' + ('list' if op['form'] == 'list' else 'ndarray')
                if not idx:
                    tag += ':empty'
            res = None
            try:
                res = cad[key]
                got = self.res_items(res)
            except Exception as e:  # noqa
                exc = e
            if raises:
                R.bucket('selection:out-of-range-index-array')
                self.ok(exc is not None, 'selection:index-array:no-raise', step=s, idx=op.get('idx'), n=n)
            else:
                R.bucket(tag)
                if want and len(want) >= 2:
                    R.bucket('selection:>=2-frames')
                self.ok(exc is None and got == want, tag, step=s, want=want, got=None if exc else got,
                        exc=repr(exc)[:160], n=n, sel=op.get('sl', op.get('idx')))
                # a selection is a cadence of its own, holding its frames like a plain list of its own: list operations on it work,
                # and neither it nor its parent is reached by what is done to a slice of it (plain cadences: no label book involved)
                if exc is None and got == want and len(want) >= 2 and not m.ordered and isinstance(res, stg.Cadence) and s % 2 == 0:
                    R.bucket('selection-used-as-a-cadence:' + ('slice' if name == 'getslice' else 'index-array'))
                    other = objs[want[-1]]
                    try:
                        sub = res[0:1]
                        sub[0] = other
                        after_res = self.res_items(res)
                        self.ok(after_res == want, 'selection:slice-of-selection-shares-storage', step=s, want=want, got=after_res, how=tag)
                        res.append(other)
                        self.ok(self.res_items(res) == want + [want[-1]], 'selection:append-to-selection', step=s, how=tag)
                        popped = res.pop()
                        self.ok(popped is other and self.res_items(res) == want, 'selection:pop-from-selection', step=s, how=tag)
                        res.insert(0, other)
                        del res[0]
                        self.ok(self.res_items(res) == want, 'selection:insert-delete-on-selection', step=s, how=tag)
                    except Exception as e2:  # noqa
                        self.ok(False, 'selection:list-operation-on-selection-raises', step=s, how=tag, exc=repr(e2)[:160])
            self.judge(name, None, unchanged, None, s)
        elif name == 'by_label':
            want = m.by_label(op['label'])
            try:
                res = cad.by_label(op['label'])
                got = self.res_items(res)
            except Exception as e:  # noqa
                exc = e
            sub = 'none' if not want else ('all' if len(want) == n else 'proper')
            R.bucket('by_label:' + sub)
            shifted = any(p >= len(m.order) or m.order[p] != m.labels[x] for p, x in enumerate(m.items))
            if shifted:
                R.bucket('by_label:labels-differ-from-order-string')
            self.ok(exc is None and got == want, 'by-label:' + ('raises' if exc else 'selection'), step=s, want=want,
                    got=None if exc else got, label=op['label'], exc=repr(exc)[:160], order=m.order,
                    labels=[m.labels[x] for x in m.items])
            self.judge(name, None, unchanged, None, s)
        elif name == 'set_order':
            new = op['order']
            exp = m.set_order(new)
            R.bucket('set_order:' + ('lt' if len(new) < n else ('eq' if len(new) == n else 'gt')))
            try:
                cad.set_order(new)
            except Exception as e:  # noqa
                exc = e
            self.judge(name, None, exp, exc, s)
        else:
            raise ValueError(name)
        if self.dead:
            return
        self.maxlen = max(self.maxlen, len(m.items))
        if len(m.items) >= 2:
            R.bucket('compared:len>=2')
        self.aggregates(s)
        if s % 4 == 0:
            self.iteration(s)

    def run(self):
        c, R = self.c, self.R
        base = self.m.sig
        oks = [s for p, s in zip(c['pool'], base) if p['kind'] == 'ok']
        self.ref_sig = oks[0]
        R.bucket('kind:' + c['kind'])
        self.judge('init', None, Expect([Cand(False, [])]), None, -1)
        self.aggregates(-1)
        for s, op in enumerate(c['ops']):
            if self.dead:
                break
            self.step(s, op)
            R.count('ops')
        R.mark_nontrivial(self.accepted >= 1 and self.rejected >= 1 and self.maxlen >= 2)


def run_case(c, R):
    stg = common.import_setigen()
    Run(stg, c, R).run()


def required(tier):
    # minimums are ~1/5 of what the quick tier reaches on the unchanged tree (seeds 0-4)
    b = {'kind:plain': 1000, 'kind:ordered': 1000, 'compared:len>=2': 10000, 'aggregate:members-with-different-tchans': 10000}
    for op in MUT_OPS + SEL_OPS + ORD_OPS:
        b['op:' + op] = 80
    b.update({'selection-used-as-a-cadence:slice': 40, 'selection-used-as-a-cadence:index-array': 40,
              'construct:source-cadence-changed-afterwards': 40})
    for op in ('insert', 'setitem', 'delitem', 'pop', 'getint'):
        for ic in IDX_CLASSES:
            b[f'idx:{op}:{ic}'] = 60
    for op in ('append', 'insert', 'setitem', 'extend', 'iadd', 'construct'):
        b[f'reject:{op}:non-frame'] = 80
        b[f'reject:{op}:differs'] = 80
    for op in ('append', 'insert', 'setitem'):
        for a in GUARD:
            b[f'reject-single:{op}:{a}'] = 50
    for a in GUARD:
        b['reject-attr:' + a] = 400
    for w in NONFRAMES:
        b['nonframe:' + w] = 150
    for f in ('list', 'tuple', 'gen', 'ndarray', 'cadence'):
        b['form:construct:' + f] = 40
        b['form:extend:' + f] = 150
    b.update({'form:extend:self': 100, 'extend:bad-element:later': 100, 'extend:bad-element:first': 100,
              'empty-accepts-any': 60, 'offer:duplicate': 2000, 'label:fresh': 2000, 'label:sticky': 1500,
              'beyond-order:append': 200, 'beyond-order:insert': 200,
              'by_label:proper': 300, 'by_label:none': 300, 'by_label:labels-differ-from-order-string': 500,
              'set_order:lt': 50, 'set_order:eq': 50, 'set_order:gt': 50,
              'order-vs-frames:lt': 50, 'order-vs-frames:eq': 50, 'order-vs-frames:gt': 50,
              'selection:slice:step1': 200, 'selection:slice:step+': 150, 'selection:slice:step-': 150,
              'selection:index-list': 150, 'selection:index-ndarray': 250, 'selection:index-mask': 100, 'selection:out-of-range-index-array': 80,
              'selection:>=2-frames': 500})
    for ic in IDX_CLASSES:
        b[f'label:fresh:insert:{ic}'] = 60
    for ic in ('in+', 'in-', '=-len'):
        b[f'label:fresh:setitem:{ic}'] = 50
    return {'buckets': b, 'counters': {'states_compared': 60000, 'aggregate_evals': 60000, 'ops': 60000},
            'checks': 500000, 'nontrivial': 2000}


MANIFEST = {
    'text': 'Runtime monitoring with a lock-step reference model: every public list operation of random histories on plain and '
            'ordered cadences (construction, append, extend, +=, insert, item/slice assignment, del, pop, int/slice/index-array '
            'selection, by_label, set_order; indices in range, == len, > len, negative, < -len; compatible, duplicate, labelled, '
            'incompatible and non-frame objects) is mirrored on a guarded Python list with a label book; after every step '
            'the cadence is compared with the model by identity, the order labels of all pool frames with the book, and '
            'tchans / obs_range / slew_times / t_start / df, dt, fchans, fmin with a recomputation from the member frames.',
    'note': '; '.join(ASSUMPTIONS),
    'technique': 'model-based runtime monitoring (reference list + guard + label automaton in lock-step, state comparison '
                 'after every operation)',
}
