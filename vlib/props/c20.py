"""C20 -- block, length and sample accounting is exact and consistent across helpers.

Monitor: exact-rational reference (fractions.Fraction of the float parameters) for every
derived size; sample ledger at the antenna boundary during real recordings; header
SCANLEN / PKTIDX / PKTSTOP; duration -> number of blocks with the 1e-9 band; stand-alone
helpers vs the backend.
"""
import os
import math
from fractions import Fraction
import numpy as np
from .. import common, work_raw
from ..ref import guppi

ID = 'C20'
LEVEL = 'exploration'
RULE = ('two strata: (a) "arith": realistic and hostile constructor parameters (sample_rate in {3e9, 2.4e9, 1.7e8, 1e6, 48000, primes, ugly}, '
        'P 8..4096, M 2..16, chans, 1-4 antennas, 1/2 pols, 8/4 bit, block sizes = admissible multiples, blocks 1..13, durations at exact '
        'block multiples computed three ways, +-1 ulp, random) judged against exact rationals without recording; (b) "record": small '
        'configurations actually recorded (num_blocks and obs_length modes) with the antenna-boundary sample ledger and header fields; '
        'non-trivial = a duration within 2 ulp of a block boundary was judged, or a recording of >= 2 blocks was ledgered; distinct = descriptor')
ASSUMPTIONS = ['floats are taken at their exact binary value (Fraction(float)); products/quotients are compared to <= 2 ulp where the property '
               'states a float result and exactly where it states an integer',
               'a duration within 1e-9 (relative) of a block boundary may resolve either way',
               'only the magnitude of get_unit_drift_rate is compared (no sign convention is fixed for descending bands)',
               'params_from_backend tchans uses the same 1e-9 band']
RATES = [3e9, 2.4e9, 1.7e8, 1e6, 48000.0, 1.5e9, 2999999987.0, 104729.0, 2.7939677238464355e9, 1e9 / 3]


def required(tier):
    b = {'kind:arith': 100, 'kind:record': 30, 'duration:exact-multiple': 50, 'duration:ulp-neighbour': 30, 'duration:random': 30, 'duration:just-below-boundary': 100, 'duration:many-blocks': 100, 'record:from_data-longer-than-input': 4, 'record:from_data-shorter-than-input': 4, 'record:second-recording-same-source': 20, 'record:template-on': 20, 'record:template-off': 20,
         'record:obs_length-mode': 10, 'record:num_blocks-mode': 10, 'record:other-length-keyword-also-given': 10, 'bits:4': 20, 'array': 20}
    return {'buckets': b, 'counters': {'durations_judged': 500, 'ledgered_requests': 100}, 'checks': 3000, 'nontrivial': 100}


def gen_cases(seed, tier):
    rng = np.random.default_rng([seed, 20])
    n = 1000 if tier == 'quick' else 240000
    cases = []
    for i in range(n):
        if i % 8 == 7:
            cfg = work_raw.gen_config(rng, tier, i=i, tones=[])
            cfg['P'] = int(common.pick(rng, [8, 16, 32]))
            cfg['nchan'] = int(rng.integers(1, min(cfg['P'] // 2, 6) + 1))
            cfg['start_chan'] = int(rng.integers(0, cfg['P'] // 2 - cfg['nchan'] + 1))
            cfg['sample_rate'] = float(common.pick(rng, RATES))
            cases.append(dict(kind='record', cfg=cfg, mode=['num_blocks', 'obs_length'][(i // 8) % 2],
                              frac=float(common.pick(rng, [0.0, 0.0, 0.5, 0.999, 1e-12])), sub=int(rng.integers(2 ** 31))))
            continue
        P = int(2 ** rng.integers(3, 13)) if rng.random() < 0.8 else int(common.pick(rng, [15, 25, 33, 100, 1023, 4097]))
        M = int(rng.integers(2, 17))
        nchan = int(common.pick(rng, [1, 2, 3, 16, 64, P // 2])) if rng.random() < 0.6 else int(rng.integers(1, P // 2 + 1))
        nchan = min(nchan, P // 2)
        nants = int(common.pick(rng, [1, 1, 2, 3, 4]))
        npol = int(rng.integers(1, 3))
        bits = int(common.pick(rng, [8, 8, 4]))
        mult = int(common.pick(rng, [1, 2, 3, 7, 64, 1000, 4096, 131072 // M if 131072 % M == 0 else 5]))
        cases.append(dict(kind='arith', sample_rate=float(common.pick(rng, RATES)), P=P, M=M, nchan=nchan, nants=nants, npol=npol,
                          bits=bits, mult=max(1, mult), nblocks=int(rng.integers(1, 14)), asc=bool(rng.integers(2)),
                          L=int(common.pick(rng, [1, 2, 8, 256, 1024, 1048576, 3, 1000])), intf=int(common.pick(rng, [1, 2, 4, 51, 7])),
                          tpbk=int(common.pick(rng, [1, 2, 16, 128, 5])), sub=int(rng.integers(2 ** 31))))
    return cases


def near(got, want_frac, ulps=2):
    w = float(want_frac)
    return abs(Fraction(float(got)) - want_frac) <= ulps * Fraction(np.spacing(abs(w)) if w != 0 else 5e-324)


def blocks_for(T, tpb_frac):
    """Admissible block counts for a requested duration T (float) under the 1e-9 band."""
    x = Fraction(float(T)) / tpb_frac
    band = Fraction(1, 10 ** 9)
    return {int(math.floor(x * (1 - band))), int(math.floor(x * (1 + band)))}, x


def build_arith(stg, c):
    v = stg.voltage
    src = v.Antenna(sample_rate=c['sample_rate'], fch1=6e9, ascending=c['asc'], num_pols=c['npol'], seed=1) if c['nants'] == 1 else \
        v.MultiAntennaArray(num_antennas=c['nants'], sample_rate=c['sample_rate'], fch1=6e9, ascending=c['asc'], num_pols=c['npol'],
                            delays=[0] * c['nants'], seed=1)
    bps = 2 * c['npol'] * c['bits'] // 8
    spb = c['M'] * c['mult']
    block_size = c['nants'] * c['nchan'] * spb * bps
    rvb = v.RawVoltageBackend(src, digitizer=v.RealQuantizer(), filterbank=v.PolyphaseFilterbank(num_taps=c['M'], num_branches=c['P']),
                              requantizer=v.ComplexQuantizer(num_bits=c['bits']), start_chan=0, num_chans=c['nchan'],
                              block_size=block_size, blocks_per_file=128, num_subblocks=32)
    return rvb, bps, spb, block_size


def check_static(stg, R, rvb, sample_rate, P, nants, nchan, npol, bits, spb, block_size, rng, c):
    FS = Fraction(float(sample_rate))
    bps = 2 * npol * bits // 8
    R.check(rvb.bytes_per_sample == bps, 'bytes_per_sample', got=rvb.bytes_per_sample, want=bps)
    R.check(isinstance(rvb.samples_per_block, (int, np.integer)) and rvb.samples_per_block == spb and
            Fraction(block_size, nants * nchan * bps) == spb, 'samples_per_block', got=rvb.samples_per_block, want=spb)
    tpb = Fraction(spb * P) / FS
    R.check(near(rvb.time_per_block, tpb, 2), 'time_per_block', got=rvb.time_per_block, want=float(tpb))
    R.check(near(rvb.tbin, Fraction(P) / FS, 1), 'tbin', got=rvb.tbin)
    R.check(near(abs(rvb.chan_bw), FS / P, 2), 'chan_bw', got=rvb.chan_bw)
    # ---- durations -> blocks
    n = c['nblocks']
    tpbf = float(rvb.time_per_block)
    t_exact = [n * tpbf, float(sum([tpbf] * n)), float(n * tpb)]
    for T in t_exact:
        R.bucket('duration:exact-multiple')
        adm, x = blocks_for(T, tpb)
        got = rvb.get_num_blocks(T)
        R.count('durations_judged')
        R.check(got in adm, 'get_num_blocks:exact-multiple', T=T, got=int(got), admissible=sorted(adm), x=float(x))
    for T in (np.nextafter(t_exact[0], 0), np.nextafter(t_exact[0], np.inf), np.nextafter(t_exact[2], np.inf)):
        R.bucket('duration:ulp-neighbour')
        adm, x = blocks_for(float(T), tpb)
        got = rvb.get_num_blocks(float(T))
        R.count('durations_judged')
        R.check(got in adm, 'get_num_blocks:ulp-neighbour', T=float(T), got=int(got), admissible=sorted(adm))
    # just below a block boundary by relative deltas far larger than the 1e-9 band: must NOT be rounded up
    for delta in (1e-8, 1e-6, 2e-5, 1e-4, 1e-3):
        R.bucket('duration:just-below-boundary')
        T = float((n - delta) * tpb) if n >= 1 else None
        if T is None or T <= 0:
            continue
        adm, x = blocks_for(T, tpb)
        got = rvb.get_num_blocks(T)
        R.count('durations_judged')
        R.check(got in adm, 'get_num_blocks:just-below-boundary', T=T, got=int(got), admissible=sorted(adm), delta=delta)
    # long observations: many blocks, arbitrary fractional part
    for _ in range(3):
        R.bucket('duration:many-blocks')
        nb = float(10 ** rng.uniform(3.5, 7.5)) + float(rng.uniform(0, 1))
        T = nb * tpbf
        adm, x = blocks_for(T, tpb)
        got = rvb.get_num_blocks(T)
        R.count('durations_judged')
        R.check(got in adm, 'get_num_blocks:many-blocks', T=T, got=int(got), admissible=sorted(adm), x=float(x))
    for _ in range(3):
        R.bucket('duration:random')
        T = float(rng.uniform(0.0, 14.0)) * tpbf
        adm, x = blocks_for(T, tpb)
        got = rvb.get_num_blocks(T)
        R.count('durations_judged')
        ok = got in adm
        R.check(ok, 'get_num_blocks:random', T=T, got=int(got), admissible=sorted(adm))
        if ok:
            dur = got * tpb
            band = 1 + Fraction(1, 10 ** 9)
            R.check(dur <= Fraction(T) * band and Fraction(T) - dur < tpb * band, 'recorded-duration-vs-request', T=T, got=int(got))
    return tpb


def run_case(c, R):
    stg = common.import_setigen()
    rng = np.random.default_rng(c['sub'])
    R.bucket('kind:' + c['kind'])
    if c['kind'] == 'arith':
        rvb, bps, spb, block_size = build_arith(stg, c)
        if c['bits'] == 4:
            R.bucket('bits:4')
        if c['nants'] > 1:
            R.bucket('array')
        tpb = check_static(stg, R, rvb, c['sample_rate'], c['P'], c['nants'], c['nchan'], c['npol'], c['bits'], spb, block_size, rng, c)
        v = stg.voltage
        FS = Fraction(float(c['sample_rate']))
        # get_block_size <-> backend
        bs = v.get_block_size(num_antennas=c['nants'], tchans_per_block=c['tpbk'], num_bits=c['bits'], num_pols=c['npol'],
                              num_branches=c['P'], num_chans=c['nchan'], fftlength=c['L'], int_factor=c['intf'])
        want_T = c['tpbk'] * c['L'] * c['intf']
        R.check(bs == want_T * c['nants'] * c['nchan'] * bps and isinstance(bs, (int, np.integer)), 'get_block_size', got=bs,
                want=want_T * c['nants'] * c['nchan'] * bps)
        # get_total_obs_num_samples, both modes
        n = c['nblocks']
        kw = dict(num_antennas=c['nants'], sample_rate=c['sample_rate'], block_size=block_size, num_bits=c['bits'], num_pols=c['npol'],
                  num_branches=c['P'], num_chans=c['nchan'])
        got = v.get_total_obs_num_samples(num_blocks=n, length_mode='num_blocks', **kw)
        R.check(got == n * spb * c['P'], 'get_total_obs_num_samples:num_blocks', got=got, want=n * spb * c['P'])
        for T in (n * float(rvb.time_per_block), float(rng.uniform(0.2, 13.7)) * float(rvb.time_per_block)):
            adm, x = blocks_for(T, tpb)
            got = v.get_total_obs_num_samples(obs_length=T, length_mode='obs_length', **kw)
            R.check(got in {a * spb * c['P'] for a in adm}, 'get_total_obs_num_samples:obs_length', T=T, got=got,
                    admissible=sorted(a * spb * c['P'] for a in adm))
        # unit drift rate
        udr = v.get_unit_drift_rate(rvb, c['L'], c['intf'])
        want = (FS / c['P'] / c['L']) / (Fraction(c['P']) / FS * c['L'] * c['intf'])
        R.check(near(abs(udr), want, 4), 'get_unit_drift_rate', got=udr, want=float(want))
        # frame parameters from backend parameters
        obs = float(rng.uniform(0.5, 40.0)) * c['intf'] * c['L'] * c['P'] / c['sample_rate'] if rng.random() < 0.5 else \
            float(int(rng.integers(1, 40)) * (c['intf'] / (c['sample_rate'] / c['P'] / c['L'])))
        pd = stg.params_from_backend(obs_length=obs, sample_rate=c['sample_rate'], num_branches=c['P'], fftlength=c['L'], int_factor=c['intf'])
        dfw = FS / c['P'] / c['L']
        dtw = Fraction(c['intf']) / dfw
        R.check(near(pd['df'], dfw, 2) and near(pd['dt'], dtw, 3), 'params_from_backend:df-dt', df=pd['df'], dt=pd['dt'])
        xx = Fraction(obs) / dtw
        band = Fraction(1, 10 ** 9)
        admt = {int(math.floor(xx * (1 - band))), int(math.floor(xx * (1 + band)))}
        R.check(pd['tchans'] in admt, 'params_from_backend:tchans', got=pd['tchans'], admissible=sorted(admt), obs=obs)
        if min(admt) >= 1 and max(admt) <= 64:
            fr = stg.Frame.from_backend_params(fchans=8, obs_length=obs, sample_rate=c['sample_rate'], num_branches=c['P'],
                                               fftlength=c['L'], int_factor=c['intf'])
            R.check(fr.tchans in admt and near(fr.df, dfw, 2) and near(fr.dt, dtw, 3), 'from_backend_params', tchans=fr.tchans)
        R.mark_nontrivial(True)
        return
    # ------------------------------------------------------------- recorded
    cfg = c['cfg']
    sz = work_raw.sizes(cfg)
    if cfg['bits'] == 4:
        R.bucket('bits:4')
    if cfg['nants'] > 1:
        R.bucket('array')
    rvb, src = work_raw.build(stg, cfg)
    tpb = check_static(stg, R, rvb, cfg['sample_rate'], cfg['P'], cfg['nants'], cfg['nchan'], cfg['npol'], cfg['bits'], sz['spb'],
                       sz['block_size'], rng, dict(nblocks=cfg['nblocks']))
    tmp = os.environ['VERIF_TMP']
    stem = os.path.join(tmp, f"c20_{c['_idx']}")
    t0 = float(src.t_start)
    R.bucket('record:' + c['mode'] + '-mode')
    # with and without the library's header template; the first recording may start its packet count anywhere
    tmpl = bool(common.stratum(c['_idx'], 201, 2))
    pkt0 = 4096 if common.stratum(c['_idx'], 202, 2) else 0
    hd1 = {'PKTIDX': pkt0} if pkt0 else {}
    R.bucket('record:template-' + ('on' if tmpl else 'off'))
    # a caller that forwards both length keywords: only the one the length mode names counts
    both = bool(common.stratum(c['_idx'], 203, 2))
    if both:
        R.bucket('record:other-length-keyword-also-given')
    if c['mode'] == 'num_blocks':
        extra_ = dict(obs_length=(cfg['nblocks'] + 3.3) * float(rvb.time_per_block)) if both else {}
        rec = work_raw.do_record(stg, cfg, stem, rvb=rvb, src=src, load_template=tmpl, header_dict=dict(hd1), **extra_)
        n = cfg['nblocks']
    else:
        T = (cfg['nblocks'] + c['frac']) * float(rvb.time_per_block)
        adm, x = blocks_for(T, tpb)
        rec = work_raw.do_record(stg, cfg, stem, rvb=rvb, src=src, num_blocks=(cfg['nblocks'] + 3) if both else None, obs_length=T,
                                 length_mode='obs_length', load_template=tmpl, header_dict=dict(hd1))
        n = rvb.num_blocks
        R.check(n in adm, 'record-obs_length-blocks', T=T, got=int(n), admissible=sorted(adm))
        band = 1 + Fraction(1, 10 ** 9)
        R.check(n * tpb <= Fraction(T) * band and Fraction(T) - n * tpb < tpb * band, 'recorded-duration-vs-request', T=T, got=int(n))
    P, M, spb = cfg['P'], cfg['M'], sz['spb']
    FS = Fraction(float(cfg['sample_rate']))
    sizes_req = [s for s, _ in rec['delivered']]
    R.count('ledgered_requests', len(sizes_req))
    want_total = n * spb * P + (M * P if n > 0 else 0)
    R.check(sum(sizes_req) == want_total, 'antenna-samples-drawn', got=sum(sizes_req), want=want_total, n=int(n))
    adv = Fraction(float(src.t_start)) - Fraction(t0)
    tol = (4 + len(sizes_req)) * Fraction(np.spacing(max(abs(t0), abs(float(src.t_start)), 1e-300)))
    R.check(abs(adv - Fraction(want_total) / FS) <= tol, 'antenna-clock-advance', got=float(adv), want=float(Fraction(want_total) / FS))
    R.check(near(rvb.obs_length, n * tpb, 2), 'obs_length', got=rvb.obs_length, want=float(n * tpb))
    R.check(rvb.total_obs_num_samples == n * spb * P, 'total_obs_num_samples', got=int(rvb.total_obs_num_samples), want=n * spb * P)
    try:
        blocks = work_raw.read_blocks(rec['files'])
    except guppi.GuppiError as e:
        R.violate('unparseable-recording:' + e.key, msg=str(e))
        blocks = []
    R.check(len(blocks) == n, 'blocks-written', got=len(blocks), want=int(n))
    for bi, blk in enumerate(blocks):
        h = blk['header']
        R.check(near(guppi.parse_value(h['SCANLEN']), n * tpb, 2), 'header-SCANLEN', got=h['SCANLEN'], want=float(n * tpb))
        R.check(guppi.parse_value(h['PKTIDX']) == pkt0 + bi * spb, 'header-PKTIDX', got=h['PKTIDX'], want=pkt0 + bi * spb)
        R.check(guppi.parse_value(h['PKTSTOP']) - guppi.parse_value(h['PKTSTART']) == n * spb, 'header-PKTSTOP', got=h['PKTSTOP'], want=n * spb)
    # ---- a second recording from the same source: it draws, and advances the clock by, exactly its own samples again
    if c['_idx'] % 16 == 15 and n >= 1:
        R.bucket('record:second-recording-same-source')
        t1 = float(src.t_start)
        rec2 = work_raw.do_record(stg, cfg, stem + '_second', rvb=rvb, src=src, load_template=tmpl)
        n2 = cfg['nblocks']
        sizes2 = [s_ for s_, _ in rec2['delivered']]
        want2 = n2 * spb * P + M * P
        R.check(sum(sizes2) == want2, 'antenna-samples-drawn:second-recording', got=sum(sizes2), want=want2)
        adv2 = Fraction(float(src.t_start)) - Fraction(t1)
        tol2 = (4 + len(sizes2)) * Fraction(np.spacing(max(abs(t1), abs(float(src.t_start)), 1e-300)))
        R.check(abs(adv2 - Fraction(want2) / FS) <= tol2, 'antenna-clock-advance:second-recording', got=float(adv2),
                want=float(Fraction(want2) / FS), periods=float(adv2 * FS))
        try:
            b2 = work_raw.read_blocks(rec2['files'])
            R.check(len(b2) == n2, 'blocks-written:second-recording', got=len(b2), want=n2)
            for bi2, blk2 in enumerate(b2):
                h2 = blk2['header']
                # an ordinary (default-header) recording after one that started its packet count elsewhere: counts start afresh
                R.check(guppi.parse_value(h2['PKTIDX']) == bi2 * spb, 'header-PKTIDX:second-recording', got=h2['PKTIDX'], want=bi2 * spb,
                        template=tmpl, first_started_at=pkt0)
                R.check(guppi.parse_value(h2['PKTSTOP']) - guppi.parse_value(h2['PKTSTART']) == n2 * spb and
                        guppi.parse_value(h2['PKTSTOP']) == n2 * spb, 'header-PKTSTOP:second-recording', got=h2['PKTSTOP'], want=n2 * spb,
                        template=tmpl, first_started_at=pkt0)
                R.check(near(guppi.parse_value(h2['SCANLEN']), n2 * tpb, 2), 'header-SCANLEN:second-recording', got=h2['SCANLEN'])
        except guppi.GuppiError as e:
            R.violate('unparseable-recording:' + e.key + ':second-recording', msg=str(e))
        for f_ in rec2['files']:
            if os.path.exists(f_):
                os.remove(f_)
    # ---- a backend built from this recording, asked for MORE than the input holds: every reported length describes what was recorded
    if c['_idx'] % 16 == 7 and n >= 1 and cfg['nants'] == 1:
        shorter = bool(n >= 2 and c['sub'] % 2)
        R.bucket('record:from_data-longer-than-input' if not shorter else 'record:from_data-shorter-than-input')
        n_req = (n - 1) if shorter else (n + 2)
        m2 = min(n_req, n)                  # what can be, and is to be, written
        v = stg.voltage
        ant = v.Antenna(sample_rate=cfg['sample_rate'], fch1=cfg['fch1'], ascending=cfg['asc'], num_pols=cfg['npol'], seed=3)
        ant.x.add_constant_signal(f_start=cfg['fch1'] + (cfg['start_chan'] + 0.3) * cfg['sample_rate'] / cfg['P'] * (1 if cfg['asc'] else -1),
                                  drift_rate=0, level=0.01)
        fb = v.PolyphaseFilterbank(num_taps=cfg['M'], num_branches=cfg['P'])
        fb.estimate_channelized_stds(factor=40, seed=1)
        with common.quiet():
            b2 = v.RawVoltageBackend.from_data(stem, ant, filterbank=fb, start_chan=cfg['start_chan'], num_subblocks=1)
        bd2 = work_raw.Boundary(ant)
        t0b = float(ant.t_start)
        stem2 = stem + '_re'
        try:
            with common.quiet():
                if c['mode'] == 'num_blocks':
                    b2.record(stem2, num_blocks=n_req, length_mode='num_blocks', header_dict={}, load_template=False, verbose=False)
                else:
                    b2.record(stem2, obs_length=(n_req + 0.5) * float(b2.time_per_block), length_mode='obs_length', header_dict={},
                              load_template=False, verbose=False)
        finally:
            bd2.detach()
        import glob as _glob
        f2 = sorted(_glob.glob(stem2 + '.????.raw'))
        try:
            blocks2 = work_raw.read_blocks(f2)
        except guppi.GuppiError as e:
            R.violate('unparseable-recording:' + e.key, msg=str(e), which='from_data')
            blocks2 = []
        R.check(len(blocks2) == m2, 'from_data:blocks-written', got=len(blocks2), want=int(m2))
        drawn = sum(s_ for s_, _ in bd2.log)
        R.check(drawn == m2 * spb * P + M * P, 'from_data:antenna-samples-drawn', got=drawn, want=m2 * spb * P + M * P)
        R.check(near(b2.obs_length, m2 * tpb, 2), 'from_data:obs_length-ignores-input-clamp', got=b2.obs_length, want=float(m2 * tpb))
        R.check(b2.total_obs_num_samples == m2 * spb * P, 'from_data:total_obs_num_samples-ignores-input-clamp',
                got=int(b2.total_obs_num_samples), want=m2 * spb * P)
        for blk in blocks2[:1]:
            h = blk['header']
            R.check(near(guppi.parse_value(h['SCANLEN']), m2 * tpb, 2), 'from_data:header-SCANLEN-ignores-input-clamp', got=h['SCANLEN'], want=float(m2 * tpb))
            R.check(int(str(guppi.parse_value(h['PKTSTOP'])).strip("' ")) - int(str(guppi.parse_value(h['PKTSTART'])).strip("' ")) == m2 * spb,
                    'from_data:header-PKTSTOP', got=h['PKTSTOP'])   # inherited cards are re-written as strings
        for f in f2:
            os.remove(f)
    for f in rec['files']:
        os.remove(f)
    R.mark_nontrivial(n >= 2)


MANIFEST = {
    'text': 'Runtime monitoring: constructor/record/get_num_blocks/helper post-conditions judged against exact rational arithmetic '
            '(Fraction of the float parameters) over realistic and hostile parameter combinations, plus a sample ledger recorded at '
            'the antenna boundary during real recordings in both length modes.',
    'note': '; '.join(ASSUMPTIONS),
    'technique': 'post-condition monitors with exact-rational reference; boundary-recorded sample ledger',
}
