"""C06 -- injection is additive, confined to its bounding range, preserves frame state.

Monitor: OLD-snapshot vs post-state around every add_signal: data delta == return value,
bit equality outside the (independently computed) bounding columns, bounded == unbounded
restricted, digest of every other attribute incl. the generator state, superposition.
"""
import copy
import numpy as np
from .. import common, work_sig
from ..ref import sig as rsig
from . import c01

ID = 'C06'
LEVEL = 'exploration'
RULE = ('C01 signal workload x prior frame content {zeros, chi2 noise, earlier signals, float32 data} x bounding-range '
        'class {none, inside, clipped low/high, wholly below/above, empty, full} x injection sequences of 1-4 signals and '
        'their reversal; non-trivial = the injected signal changes at least one pixel and at least one pixel lies outside '
        'the bounding columns or the sequence has >=2 signals; distinct = distinct descriptor')
ASSUMPTIONS = ['a bounding range (b0,b1) selects columns index(b0) <= j < index(b1), clipped to the band',
               'delta == return is demanded to 1 ulp of the data dtype on touched columns (float "+="), bit-exact elsewhere',
               'random state = Frame.rng only (seeded random paths/profiles own their generators)',
               'bounded vs unbounded compared within twice the R-SIG interval bound']
PRIOR = ['zeros', 'chi2', 'signals', 'float32']


def required(tier):
    b = {f'prior:{k}': 5 for k in PRIOR}
    b['out-of-band-twice'] = 100
    b['frame-wider-than-2^16-channels'] = 10
    b['unseeded-frame-and-profiles'] = 100
    b['decoy-frame-other-resolution-injected-first'] = 200
    b['helper-injection-state'] = 200
    b['noise-realisation-held-across-the-injections'] = 100
    b.update({f'bound:{k}': 5 for k in set(work_sig.BOUND_KINDS)})
    b.update({f'flags:{k}': 1 for k in range(16)})
    b.update({'sequence>=2': 20, 'outside-columns-exist': 50, 'cadence-injection-state': 50, 'derived-sibling-watched': 100, 'noise-estimate-vs-control-frame': 40})
    return {'buckets': b, 'counters': {'pixels_outside_checked': 10000, 'state_digests': 100}, 'checks': 1000, 'nontrivial': 50}


def gen_cases(seed, tier):
    rng = np.random.default_rng([seed, 6])
    n = 1300 if tier == 'quick' else 120000
    cases = []
    for i in range(n):
        g = work_sig.gen_geometry(rng, tier)
        k = 1 if common.stratum(i, 31, 3) else int(rng.integers(2, 5))
        sigs = []
        for q in range(k):
            bk = common.stratum(i + q, 33, work_sig.BOUND_KINDS)
            sigs.append(dict(spec=work_sig.gen_signal(rng, g, i=i + 7 * q), opts=work_sig.gen_opts(rng, i + q),
                             bound_kind=bk, brange=work_sig.gen_bounding(rng, g, bk)))
        if common.stratum(i, 34, 60 if tier == 'quick' else 400) == 0:
            # a very wide frame and a bounding range spanning more than 2^16 channels that ends INSIDE the band, with signal power
            # just on either side of its upper end (a library that works through wide ranges in pieces must stop where asked)
            F_ = int(rng.integers(70000, 150001))
            g.update(fchans=F_, tchans=int(rng.integers(1, 4)))
            if g['fch1'] - F_ * g['df'] < 1e6:
                g['fch1'] = F_ * g['df'] + 1e8
            fmin_ = work_sig.axes_of(g)
            a_ = int(rng.integers(0, 3000))
            b_ = a_ + 65536 + int(rng.integers(1, F_ - a_ - 65536 - 5))
            s0_ = dict(spec=work_sig.gen_signal(rng, g, i=i), opts=work_sig.gen_opts(rng, i), bound_kind='inside',
                       brange=[fmin_ + (a_ + 0.2) * g['df'], fmin_ + (b_ - 0.2) * g['df']])
            s0_['spec']['path'].update(kind='constant', form='callable', f_start=fmin_ + (b_ + float(rng.uniform(-3, 3))) * g['df'],
                                       drift=float(rng.normal()) * g['df'] / g['dt'])
            s0_['spec']['fprof'] = dict(kind='gaussian', width=float(rng.uniform(2, 6)) * g['df'])
            s0_['spec']['bp'] = {'kind': 'constant', 'level': 1.0, 'cycles': 1.0}
            s0_['opts'].update(f_subsamples=int(rng.integers(1, 4)), smearing_subsamples=int(rng.integers(1, 4)))
            sigs = [s0_]
        cases.append(dict(geom=g, sigs=sigs, prior=common.stratum(i, 32, PRIOR), sub=int(rng.integers(2 ** 31))))
    return cases


def state_digest(fr):
    return dict(fs=fr.fs.tobytes(), ts=fr.ts.tobytes(), shape=tuple(fr.shape), df=fr.df, dt=fr.dt, fch1=fr.fch1,
                fmin=fr.fmin, fmax=fr.fmax, fchans=fr.fchans, tchans=fr.tchans,
                ascending=fr.ascending, noise_mean=float(fr.noise_mean), noise_std=float(fr.noise_std),
                metadata=copy.deepcopy(fr.metadata), t_start=fr.t_start, source_name=fr.source_name,
                rng=copy.deepcopy(fr.rng.bit_generator.state), chi2_df=fr.chi2_df, dtype=str(fr.data.dtype))


def make_prior(stg, g, prior, sub, held=None):
    """`held`: list that receives the arrays the caller got back while preparing the frame (the noise realisation)."""
    rng = np.random.default_rng(sub)
    if prior == 'float32':
        data = rng.chisquare(4, size=(g['tchans'], g['fchans'])).astype(np.float32) * 1e3
        fr = stg.Frame(data=data, df=g['df'], dt=g['dt'], fch1=g['fch1'], ascending=g['asc'], seed=sub, t_start=1.7e9)
        return fr
    fr = c01.make_frame(stg, g, seed=sub)
    if prior in ('chi2', 'signals'):
        if round(fr.df * fr.dt) >= 1:
            nz = fr.add_noise(x_mean=10.0)
        else:
            nz = fr.add_noise(x_mean=10.0, x_std=1.0, noise_type='gaussian')
        if held is not None and isinstance(nz, np.ndarray):
            held.append(nz)
    if prior == 'signals':
        fr.add_constant_signal(f_start=fr.get_frequency(g['fchans'] // 2), drift_rate=0.3 * fr.unit_drift_rate,
                               level=5.0, width=3 * fr.df, f_profile_type='gaussian')
        fr.add_metadata({'note': 'prior', 'drift_rate': 0.3})
    return fr


def inject_monitored(stg, fr, s, R, tag):
    """One monitored injection; returns (returned signal, lo, hi, ref)."""
    g_fs = np.array(fr.fs, dtype=float)
    ts = np.array(fr.ts, dtype=float)
    lo, hi = rsig.bounding_columns(g_fs, fr.df, fr.fchans, s['brange'])
    ref = rsig.SignalRef(stg, s['spec'], (g_fs[0] + g_fs[-1]) / 2, max(fr.df * fr.fchans, fr.df))
    before = fr.data.copy()
    old = state_digest(fr)
    ret = c01.call_add_signal(fr, stg, s['spec'], s['opts'], s['brange'], ref, lo, hi)
    after = fr.data
    new = state_digest(fr)
    for nm, arr, arr_before in getattr(ref, '_caller_arrays', []):
        R.check(np.array_equal(arr, arr_before), 'caller-array-modified:' + nm, tag=tag)
        R.count('caller_arrays_checked')
    R.count('state_digests')
    for k in old:
        same = (old[k] == new[k])
        R.check(bool(same), 'state-changed:' + k, tag=tag)
    R.check(after.shape == before.shape and after.dtype == before.dtype, 'data-shape-or-dtype-changed')
    R.check(not np.shares_memory(ret, fr.data), 'return-aliases-frame-data')
    F = fr.fchans
    out = np.ones(F, dtype=bool)
    out[lo:hi] = False
    suffix = ':bounding-range-outside-band' if s['bound_kind'] in ('below', 'above') else ''
    if out.any():
        R.bucket('outside-columns-exist')
        R.count('pixels_outside_checked', int(out.sum()) * fr.tchans)
        R.check(np.array_equal(after[:, out], before[:, out]), 'outside-bounding-range-modified' + suffix,
                cols=[lo, hi], changed=int(np.sum(after[:, out] != before[:, out])), tag=tag)
        R.check(not np.any(ret[:, out] != 0), 'return-nonzero-outside-bounding-range' + suffix, cols=[lo, hi], tag=tag)
    if hi > lo:
        a64 = after[:, lo:hi].astype(np.float64)
        expect = before[:, lo:hi].astype(np.float64) + ret[:, lo:hi]
        if after.dtype == np.float32:
            tol = np.spacing(np.maximum(np.abs(a64), np.abs(before[:, lo:hi])).astype(np.float32)).astype(np.float64)
        else:
            tol = np.spacing(np.maximum(np.abs(a64), np.abs(before[:, lo:hi])))
        okk = np.abs(a64 - expect) <= tol
        R.check(bool(np.all(okk)), 'delta-differs-from-returned-signal', nbad=int((~okk).sum()), tag=tag,
                maxerr=float(np.max(np.abs(a64 - expect))))
        # columns the signal leaves exactly zero are bit-identical
        z = (ret[:, lo:hi] == 0)
        R.check(np.array_equal(after[:, lo:hi][z], before[:, lo:hi][z]), 'zero-signal-pixels-modified', tag=tag)
    return ret, lo, hi, ref


def run_case(c, R):
    stg = common.import_setigen()
    g = c['geom']
    R.bucket('prior:' + c['prior'])
    if g['fchans'] > 65536:
        R.bucket('frame-wider-than-2^16-channels')
    held = []
    fr = make_prior(stg, g, c['prior'], c['sub'], held=held)
    start = fr.data.astype(np.float64).copy()
    rets = []
    # arrays the library handed out earlier (the noise realisation, then every injected signal) are the caller's: later
    # injections change the frame's data and nothing else
    kept_returns = [(a_, a_.copy()) for a_ in held]
    if held:
        R.bucket('noise-realisation-held-across-the-injections')
    changed = False
    # a frame derived from this one BEFORE the injections must be left alone by them ("nothing else" includes other frames)
    sib = None
    if g['fchans'] >= 2 and c['_idx'] % 2 == 0:
        R.bucket('derived-sibling-watched')
        sib = fr.get_slice(0, max(1, g['fchans'] // 2))
        sib_before = sib.data.copy()
    if c['_idx'] % 4 == 1:
        # history: ANOTHER frame with the same first channel, orientation and shape but twice the channel width received the same
        # signal descriptions over the same column ranges just before ("what an injection adds" does not depend on other frames)
        R.bucket('decoy-frame-other-resolution-injected-first')
        g2 = dict(g, df=2.0 * g['df'])
        decoy = c01.make_frame(stg, g2)
        dfs = np.array(decoy.fs, dtype=float)
        for s in c['sigs']:
            lo_, hi_ = rsig.bounding_columns(np.array(fr.fs, dtype=float), fr.df, fr.fchans, s['brange'])
            if hi_ <= lo_:
                continue
            br_ = None if s['brange'] is None else [float(dfs[0] + (lo_ - 0.2) * decoy.df), float(dfs[0] + (hi_ - 0.2) * decoy.df)]
            ref_d = rsig.SignalRef(stg, s['spec'], (dfs[0] + dfs[-1]) / 2, max(decoy.df * decoy.fchans, decoy.df))
            try:
                c01.call_add_signal(decoy, stg, s['spec'], s['opts'], br_, ref_d, lo_, hi_)
            except Exception:                       # noqa  (array-valued specs are sized for the case's own frame; the decoy is not judged)
                R.count('decoy_injections_skipped')
    for q, s in enumerate(c['sigs']):
        R.bucket('bound:' + s['bound_kind'])
        o = s['opts']
        R.bucket(f"flags:{sum(1 << k for k, n in enumerate(('integrate_path', 'integrate_t_profile', 'integrate_f_profile', 'doppler_smearing')) if o[n])}")
        ret, lo, hi, ref = inject_monitored(stg, fr, s, R, tag=q)
        rets.append(ret.copy())
        changed = changed or bool(np.any(ret != 0))
        # bounded == unbounded restricted to the range (fresh empty frame, fresh same-seed objects)
        if s['brange'] is not None and q == 0:
            e1 = c01.make_frame(stg, g)
            fs = np.array(e1.fs, dtype=float)
            ref_u = rsig.SignalRef(stg, s['spec'], (fs[0] + fs[-1]) / 2, max(e1.df * e1.fchans, e1.df))
            ref_u.fixed_path, ref_u.fixed_tprof = ref.fixed_path, ref.fixed_tprof
            unb = c01.call_add_signal(e1, stg, s['spec'], s['opts'], None, ref_u, 0, e1.fchans)
            if hi > lo:
                ref_v = rsig.SignalRef(stg, s['spec'], (fs[0] + fs[-1]) / 2, max(e1.df * e1.fchans, e1.df))
                ref_v.fixed_path, ref_v.fixed_tprof = ref.fixed_path, ref.fixed_tprof
                value, bound, _ = rsig.evaluate(ref_v, np.array(e1.ts), fs, e1.df, e1.dt, lo, hi, s['opts'])
                peak = float(np.max(np.abs(value)))
                dec = bound[:, lo:hi] <= max(1e-3 * peak, 1e-280)
                err = np.abs(ret[:, lo:hi] - unb[:, lo:hi])
                bad = dec & ~(err <= 2 * bound[:, lo:hi] + 1e-12 * peak)
                R.check(not bad.any(), 'bounded-differs-from-unbounded-restricted', nbad=int(bad.sum()), cols=[lo, hi],
                        maxerr=float(err.max()))
                R.count('bounded_vs_unbounded_pixels', int(dec.sum()))
                # without frequency integration every pixel is elementwise arithmetic on the frame's own axis values: restricting
                # the computation to a range cannot change a single bit ("equals", not "is close to")
                deterministic_ = s['spec']['path']['kind'] != 'rfi' and not (s['spec']['tprof']['kind'] == 'pgauss' and (
                    s['spec']['tprof']['direction'] == 'rand' or s['spec']['tprof'].get('offset_width', 0)))
                if not s['opts'].get('integrate_f_profile') and s['spec']['bp']['kind'] != 'array' and deterministic_:
                    nb_ = int((ret[:, lo:hi] != unb[:, lo:hi]).sum())
                    R.check(nb_ == 0, 'bounded-differs-bitwise-from-unbounded-restricted', nbad=nb_, cols=[lo, hi])
                    R.count('bounded_vs_unbounded_bitwise_pixels', int(ret[:, lo:hi].size))
        # the returned array is the caller's: accumulating into it (total = first; total += next) must not reach anything the
        # library hands out later
        ret += 3.25
        kept_returns.append((ret, ret.copy()))
    # nothing seeded at all (frame, stochastic path, stochastic time profile built without a seed): the frame's random state is
    # still the frame's own -- an injection that draws its randomness elsewhere leaves it where it was
    if c['_idx'] % 5 == 0:
        R.bucket('unseeded-frame-and-profiles')
        uf = stg.Frame(fchans=min(g['fchans'], 64), tchans=min(g['tchans'], 8), df=g['df'], dt=g['dt'], fch1=g['fch1'], ascending=g['asc'])
        uf2 = stg.Frame(fchans=min(g['fchans'], 64), tchans=min(g['tchans'], 8), df=g['df'], dt=g['dt'], fch1=g['fch1'], ascending=g['asc'])
        st0 = copy.deepcopy(uf.rng.bit_generator.state)
        st2 = copy.deepcopy(uf2.rng.bit_generator.state)
        upath = stg.simple_rfi_path(float(uf.fs[len(uf.fs) // 2]), 0.0, 3 * uf.df, spread_type='uniform', rfi_type='random_walk')
        utprof = stg.periodic_gaussian_t_profile(2 * uf.dt, 3 * uf.dt, phase=0.0, pulse_offset_width=0.3 * uf.dt, pulse_direction='rand', pnum=3,
                                                 amplitude=1.0, level=1.0, min_level=0.0)
        uf.add_signal(upath, utprof, stg.gaussian_f_profile(3 * uf.df), stg.constant_bp_profile(level=1.0))
        R.check(uf.rng.bit_generator.state == st0, 'state-changed:rng:unseeded-frame-and-profiles')
        R.check(uf2.rng.bit_generator.state == st2, 'another-unseeded-frame-random-state-changed-by-injection')
        R.check(uf.rng is not uf2.rng, 'unseeded-frames-share-one-generator')
    # an array that was returned belongs to the caller from then on: later injections into the same frame leave it alone
    for j_, (arr_, cp_) in enumerate(kept_returns):
        R.check(np.array_equal(arr_, cp_), 'returned-array-changed-by-a-later-injection', call=j_, calls=len(kept_returns))
    # the constant-signal helper is an injection like any other: data += returned array, everything else as it was
    if c['_idx'] % 3 == 1 and g['fchans'] >= 8:
        R.bucket('helper-injection-state')
        hf_ = make_prior(stg, g, c['prior'], c['sub'])          # a frame of its own: the case's frame is judged further below
        if 'drift_rate' in hf_.metadata:
            R.bucket('helper-injection-state:drift-rate-already-annotated')
        hb_ = hf_.data.copy()
        hold_ = state_digest(hf_)
        with common.quiet():
            hret_ = hf_.add_constant_signal(f_start=hf_.get_frequency(g['fchans'] // 2), level=3.0, width=3 * hf_.df,
                                           drift_rate=(0.4 if c['_idx'] % 2 else -0.4) * hf_.unit_drift_rate,
                                           f_profile_type=['gaussian', 'box', 'sinc2', 'lorentzian'][c['_idx'] % 4])
        hnew_ = state_digest(hf_)
        for k in hold_:
            R.check(bool(hold_[k] == hnew_[k]), 'state-changed:' + k + ':constant-signal-helper')
        ha_ = hf_.data.astype(np.float64)
        hexp_ = hb_.astype(np.float64) + hret_
        htol_ = np.spacing(np.maximum(np.abs(ha_), np.abs(hb_)).astype(hf_.data.dtype)).astype(np.float64)
        R.check(bool(np.all(np.abs(ha_ - hexp_) <= htol_)), 'delta-differs-from-returned-signal:constant-signal-helper',
                maxerr=float(np.max(np.abs(ha_ - hexp_))))
        R.check(not np.shares_memory(hret_, hf_.data), 'return-aliases-frame-data:constant-signal-helper')
    # two injections that miss the band altogether, the caller writing into the first result in between
    if c['_idx'] % 3 == 0:
        R.bucket('out-of-band-twice')
        fmin_ = float(fr.fs[0])
        for rep in range(2):
            d0 = fr.data.copy()
            if rep == 0 or c['_idx'] % 2:
                z = fr.add_signal(stg.constant_path(f_start=fmin_ - 50 * fr.df, drift_rate=0.0), stg.constant_t_profile(level=4.0),
                                  stg.box_f_profile(width=2 * fr.df), stg.constant_bp_profile(level=1.0),
                                  bounding_f_range=(fmin_ - 60 * fr.df, fmin_ - 40 * fr.df))
            else:
                z = fr.add_constant_signal(f_start=fmin_ - 50 * fr.df, drift_rate=0.0, level=4.0, width=2 * fr.df, f_profile_type='box')
            R.check(isinstance(z, np.ndarray) and z.shape == tuple(fr.shape) and not np.any(z), 'out-of-band-injection-returns-nonzero',
                    rep=rep, nonzero=int(np.count_nonzero(z)) if isinstance(z, np.ndarray) else -1)
            R.check(np.array_equal(fr.data, d0), 'out-of-band-injection-changed-data', rep=rep)
            if isinstance(z, np.ndarray) and z.shape == tuple(fr.shape):
                z += 5.0
    if sib is not None:
        R.check(np.array_equal(sib.data, sib_before), 'injection-changed-a-frame-derived-earlier', changed=int((sib.data != sib_before).sum()))
        before_parent = fr.data.copy()
        sib.add_constant_signal(f_start=sib.get_frequency(0), drift_rate=0.0, level=7.0, width=3 * sib.df, f_profile_type='gaussian')
        R.check(np.array_equal(fr.data, before_parent), 'injection-into-derived-frame-changed-its-parent',
                changed=int((fr.data != before_parent).sum()))
    if len(c['sigs']) >= 2:
        R.bucket('sequence>=2')
        k = len(c['sigs'])
        total = fr.data.astype(np.float64) - start
        ssum = np.sum(rets, axis=0)
        scale = np.maximum(np.abs(fr.data.astype(np.float64)), np.abs(start))
        for r_ in rets:
            scale = np.maximum(scale, np.abs(r_))
        unit = np.spacing(scale.astype(fr.data.dtype)).astype(np.float64)
        okk = np.abs(total - ssum) <= (2 * k + 2) * unit
        R.check(bool(np.all(okk)), 'superposition-sum-differs', nbad=int((~okk).sum()),
                maxerr=float(np.max(np.abs(total - ssum))))
        # reversed order on a twin frame with identical prior content
        fr2 = make_prior(stg, g, c['prior'], c['sub'])
        deterministic = all(s['spec']['path']['kind'] != 'rfi' and not (s['spec']['tprof']['kind'] == 'pgauss'
                            and (s['spec']['tprof']['direction'] == 'rand' or s['spec']['tprof'].get('offset_width', 0)))
                            for s in c['sigs'])
        for s in reversed(c['sigs']):
            gfs = np.array(fr2.fs, dtype=float)
            lo, hi = rsig.bounding_columns(gfs, fr2.df, fr2.fchans, s['brange'])
            ref = rsig.SignalRef(stg, s['spec'], (gfs[0] + gfs[-1]) / 2, max(fr2.df * fr2.fchans, fr2.df))
            c01.call_add_signal(fr2, stg, s['spec'], s['opts'], s['brange'], ref, lo, hi)
        okk = np.abs(fr2.data.astype(np.float64) - fr.data.astype(np.float64)) <= (2 * k + 2) * unit
        R.check(bool(np.all(okk)), 'order-of-injection-matters', nbad=int((~okk).sum()))
    # noise estimates of a frame built from existing data: they describe the data the frame was BUILT from, whether or not
    # anybody looked at them before an injection (a control frame of identical content is the witness)
    if c['prior'] == 'float32' and c['_idx'] % 2 == 1:
        R.bucket('noise-estimate-vs-control-frame')
        probe = make_prior(stg, g, c['prior'], c['sub'])            # never inspected before the injection
        control = make_prior(stg, g, c['prior'], c['sub'])
        want_stats = (float(control.noise_mean), float(control.noise_std))
        s0_ = c['sigs'][0]
        gfs_ = np.array(control.fs, dtype=float)
        lo_, hi_ = rsig.bounding_columns(gfs_, control.df, control.fchans, s0_['brange'])
        ref_ = rsig.SignalRef(stg, s0_['spec'], (gfs_[0] + gfs_[-1]) / 2, max(control.df * control.fchans, control.df))
        c01.call_add_signal(probe, stg, s0_['spec'], s0_['opts'], s0_['brange'], ref_, lo_, hi_)
        got_stats = (float(probe.noise_mean), float(probe.noise_std))
        R.check(got_stats == want_stats, 'noise-estimate-depends-on-whether-it-was-read-before-the-injection', got=got_stats, want=want_stats)
    # the same clause for injection through a cadence: every member frame's state other than data is untouched
    if c['_idx'] % 4 == 0 and c['prior'] != 'float32':
        R.bucket('cadence-injection-state')
        s0 = c['sigs'][0]
        frames = []
        for k in range(3):
            f_ = c01.make_frame(stg, g, seed=c['sub'] + k)
            f_.t_start = 1.7e9 + k * (f_.tchans * f_.dt + 317.0 + 0.123456789 * k)
            frames.append(f_)
        cad = stg.Cadence(frames)
        olds = [state_digest(f_) for f_ in frames]
        gfs = np.array(frames[0].fs, dtype=float)
        lo, hi = rsig.bounding_columns(gfs, frames[0].df, frames[0].fchans, s0['brange'])
        ref = rsig.SignalRef(stg, s0['spec'], (gfs[0] + gfs[-1]) / 2, max(frames[0].df * frames[0].fchans, frames[0].df))
        ts0 = np.array(frames[0].ts, dtype=float)
        path, tprof, fprof, bp = rsig.lib_args(stg, s0['spec'], ts0, np.append(ts0, ts0[-1] + frames[0].dt), gfs, lo, hi, s0['opts'], ref)
        if s0['spec']['bp']['kind'] == 'array':
            Sf = s0['opts']['f_subsamples'] if s0['opts'].get('integrate_f_profile') else 1
            bp = ref.bp((gfs[lo:hi][:, None] + np.arange(Sf)[None, :] * frames[0].df / Sf).ravel())
        kw = dict(s0['opts'])
        if s0['brange'] is not None:
            kw['bounding_f_range'] = tuple(s0['brange'])
        cad.add_signal(path, tprof, fprof, bp, **kw)
        for k, f_ in enumerate(frames):
            new_ = state_digest(f_)
            for key_ in olds[k]:
                R.check(bool(olds[k][key_] == new_[key_]), 'state-changed:' + key_ + ':cadence-injection', frame=k)
    some_out = any(rsig.bounding_columns(np.array(fr.fs), fr.df, fr.fchans, s['brange']) != (0, fr.fchans) for s in c['sigs'])
    R.mark_nontrivial(changed and (some_out or len(c['sigs']) >= 2))


MANIFEST = {
    'text': 'Runtime monitoring: a pre-state snapshot (data copy + digest of axes, noise estimates, metadata, generator '
            'state) is compared with the post-state around every add_signal of a workload with prior content, all '
            'bounding-range classes and injection sequences; columns outside the independently computed bounding range '
            'must be bit-identical.',
    'note': '; '.join(ASSUMPTIONS),
    'technique': 'OLD-snapshot/post-state monitor around the real call; differential bounded-vs-unbounded and superposition oracles',
}
