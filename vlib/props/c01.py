"""C01 -- injected signal equals the pointwise product of its four components.

Monitor: post-condition on every Frame.add_signal of the workload: the returned array is
compared pixel by pixel with the independent evaluator R-SIG (vlib/ref/sig.py) under its
term-wise first-order interval bound; array-input validation clauses.
"""
import numpy as np
from .. import common, work_sig
from ..ref import sig as rsig

ID = 'C01'
LEVEL = 'exploration'
RULE = ('stratified: every one of the 16 integrate_*/smearing flag sets x path family/form x t-profile family/form x '
        'f-profile family x bandpass form x bounding-range class, continuous parameters random inside each stratum '
        '(start inside / on / between channels / outside the band, drift -4..4 px/step, widths 0.05..20 px); '
        'non-trivial = the reference signal has >=1 non-zero decidable pixel inside the frame; distinct = distinct descriptor')
ASSUMPTIONS = ['sub-sample grids are left Riemann grids anchored at the axis sample (t_i + r*dt/S, f_j + s*df/S)',
               'a bounding range (b0,b1) selects columns index(b0) <= j < index(b1), clipped to the band',
               'pixels whose first-order bound exceeds 1e-3 of the peak (sub-sample within a few ulp of a discontinuity) are skipped and counted',
               'seeded random families (rfi path, periodic gaussian with random sign/offset) are mirrored by a same-seed twin of the library object',
               'array bandpass: full-length array offered first, restricted/sub-sampled array on a shape ValueError']


def required(tier):
    b = {f'flags:{k}': 2 for k in range(16)}
    b.update({f'path:{k}': 2 for k in ('constant', 'squared', 'sine', 'rfi', 'custom_scalar')})
    b.update({f'pform:{k}': 2 for k in ('callable', 'array', 'list', 'scalar', 'int')})
    b.update({f'tprof:{k}': 2 for k in ('constant', 'sine', 'pgauss', 'custom_scalar', 'custom_poly')})
    b.update({f'fprof:{k}': 2 for k in ('box', 'gaussian', 'multi', 'lorentzian', 'voigt', 'sinc2', 'custom_abs')})
    b.update({f'bp:{k}': 2 for k in work_sig.BP_KINDS})
    b.update({f'bound:{k}': 2 for k in set(work_sig.BOUND_KINDS)})
    b.update({'bounding-range-form:' + k: 30 for k in ('plain-tuple', 'Hz', 'kHz', 'MHz', 'GHz-list', 'plain-list')})
    b.update({'frame:float32-storage': 100, 'frame:gap-in-time-axis': 40, 'df:negative-argument': 50, 'geometry:python-integers': 30, 'orient:asc': 10, 'orient:desc': 10, 'array-path-with-smearing': 2, 'validation-probe': 10,
              'bp-array:restricted-grid-length-equals-fchans': 10})
    return {'buckets': b, 'counters': {'pixels_compared': 10000, 'add_signal_calls': 100}, 'checks': 300, 'nontrivial': 50}


def gen_cases(seed, tier):
    rng = np.random.default_rng([seed, 1])
    n = 1600 if tier == 'quick' else 160000
    cases = []
    for i in range(n):
        g = work_sig.gen_geometry(rng, tier)
        if tier == 'thorough' and i % 400 == 0:
            g['fchans'], g['tchans'] = 4096, 64
        spec = work_sig.gen_signal(rng, g, i=i)
        opts = work_sig.gen_opts(rng, i)
        bk = common.stratum(i, 42, work_sig.BOUND_KINDS)
        brange = work_sig.gen_bounding(rng, g, bk)
        if common.stratum(i, 41, 40) == 7:
            # array bandpass on a bounded, frequency-integrated grid whose length equals fchans exactly
            S = int(common.pick(rng, [2, 3, 4]))
            nb = int(rng.integers(2, 40))
            g['fchans'] = nb * S
            spec = work_sig.gen_signal(rng, g, i=i)
            spec['bp'] = {'kind': 'array', 'level': 1.0, 'cycles': float(rng.uniform(0.7, 3))}
            opts['integrate_f_profile'], opts['f_subsamples'] = True, S
            a0 = int(rng.integers(0, g['fchans'] - nb + 1))
            fmin = work_sig.axes_of(g)
            bk, brange = 'inside', [fmin + (a0 + 0.2) * g['df'], fmin + (a0 + nb - 0.2) * g['df']]
            spec['path']['f_start'] = fmin + (a0 + nb / 2 + float(rng.uniform(-1, 1))) * g['df']
            if spec['path']['kind'] in ('constant', 'squared', 'sine', 'rfi'):
                spec['path']['drift'] = float(rng.normal()) * 0.2 * g['df'] / g['dt']
        # frame variants: single-precision storage (every frame loaded from a file is float32); a time axis with a gap in it (a
        # consolidated cadence) -- only where nothing is integrated over time, the one reading of "t_i" that is unambiguous there
        variant = common.stratum(i, 43, ['plain', 'plain', 'plain', 'float32-storage', 'gap-in-time-axis'])
        if variant == 'gap-in-time-axis' and (opts['integrate_path'] or opts['integrate_t_profile'] or g['tchans'] < 2 or g.get('int_geom')):
            variant = 'plain'
        cases.append(dict(geom=g, spec=spec, opts=opts, bound_kind=bk, brange=brange, variant=variant,
                          gap=float(common.pick(rng, [900.0, 37.5, 1.0e4])), sub=int(rng.integers(2 ** 31))))
    return cases


def make_frame(stg, g, seed=None, **kw):
    # a negative channel width (the filterbank 'foff' sign convention) is accepted and describes the same grid as its absolute value
    df_, dt_, f1_ = (-g['df'] if g.get('neg_df') else g['df']), g['dt'], g['fch1']
    if g.get('int_geom'):
        df_, dt_, f1_ = int(df_), int(dt_), int(f1_)
    if g.get('cls') == 'spectrum':
        return stg.Spectrum(fchans=g['fchans'], df=df_, dt=dt_, fch1=f1_, ascending=g['asc'], seed=seed, t_start=1.7e9, **kw)
    return stg.Frame(fchans=g['fchans'], tchans=g['tchans'], df=df_, dt=dt_, fch1=f1_, ascending=g['asc'], seed=seed, t_start=1.7e9, **kw)


def call_add_signal(fr, stg, spec, opts, brange, ref, lo, hi, R=None):
    """Call the real add_signal for a spec; returns (result, used_opts)."""
    ts = np.array(fr.ts, dtype=float)
    fs = np.array(fr.fs, dtype=float)
    path, tprof, fprof, bp = rsig.lib_args(stg, spec, ts, np.append(ts, ts[-1] + fr.dt), fs, lo, hi, opts, ref)
    kw = dict(opts)
    if brange is not None:
        # the range as a caller has it: plain numbers or astropy quantities in any frequency unit, tuple or list (the strata are
        # chosen from the numbers themselves so that every caller of this function covers them)
        from astropy import units as u
        fin_ = [abs(x) for x in brange if np.isfinite(x)]
        form = int((fin_[0] * 7 + fin_[-1]) if fin_ else 0) % 6
        lo_f, hi_f = float(brange[0]), float(brange[1])
        if form == 1:
            br = (lo_f * u.Hz, hi_f * u.Hz)
        elif form == 2:
            br = ((lo_f * 1e-3) * u.kHz, (hi_f * 1e-3) * u.kHz)
        elif form == 3:
            br = ((lo_f * 1e-6) * u.MHz, (hi_f * 1e-6) * u.MHz)
        elif form == 4:
            br = [(lo_f * 1e-9) * u.GHz, (hi_f * 1e-9) * u.GHz]
        elif form == 5:
            br = [lo_f, hi_f]
        else:
            br = (lo_f, hi_f)
        if R is not None:
            R.bucket('bounding-range-form:' + ['plain-tuple', 'Hz', 'kHz', 'MHz', 'GHz-list', 'plain-list'][form])
        kw['bounding_f_range'] = br
    # caller-owned arrays handed to the library (C06 checks that they come back unchanged: "and nothing else")
    ref._caller_arrays = [(nm, a, np.array(a, copy=True)) for nm, a in (('path', path), ('t_profile', tprof), ('bp_profile', bp))
                          if isinstance(a, np.ndarray)]
    if spec['bp']['kind'] == 'array':
        Sf = opts['f_subsamples'] if opts.get('integrate_f_profile') else 1
        full_ok = (lo == 0 and hi == fr.fchans and Sf == 1)
        if full_ok:
            return fr.add_signal(path, tprof, fprof, bp, **kw)
        # bounded and/or frequency-integrated: the array convention the code documents is "one value per evaluated
        # frequency" (restricted, sub-sampled grid). Offer that first -- a full-length array whose length happens to equal
        # the restricted grid's would silently be read in the other convention -- and the full-length form on ValueError.
        grid = (fs[lo:hi][:, None] + np.arange(Sf)[None, :] * fr.df / Sf).ravel()
        try:
            if R is not None:
                R.count('bp_array_restricted_form')
            return fr.add_signal(path, tprof, fprof, ref.bp(grid), **kw)
        except ValueError:
            if len(grid) == fr.fchans:
                raise
            # fresh library objects: the rejected attempt may already have advanced seeded generators
            path, tprof, fprof, bp = rsig.lib_args(stg, spec, ts, np.append(ts, ts[-1] + fr.dt), fs, lo, hi, opts, ref)
            return fr.add_signal(path, tprof, fprof, bp, **kw)
    return fr.add_signal(path, tprof, fprof, bp, **kw)


def run_case(c, R):
    stg = common.import_setigen()
    g, spec, opts = c['geom'], c['spec'], c['opts']
    rng = np.random.default_rng(c['sub'])
    fr = make_frame(stg, g, seed=c['sub'])
    variant = c.get('variant', 'plain')
    R.bucket('frame:' + variant)
    if variant == 'float32-storage':
        fr = stg.Frame.from_data(fr.df, fr.dt, fr.fch1, g['asc'], np.zeros((g['tchans'], g['fchans']), dtype=np.float32), seed=c['sub'],
                                 t_start=1.7e9)
    elif variant == 'gap-in-time-axis':
        T_ = g['tchans']
        fr.ts = np.asarray(fr.ts) + np.where(np.arange(T_) >= T_ // 2 + (T_ % 2), c['gap'], 0.0)
    ts = np.array(fr.ts, dtype=float)
    fs = np.array(fr.fs, dtype=float)
    lo, hi = rsig.bounding_columns(fs, fr.df, fr.fchans, c['brange'])
    span = max(fr.df * fr.fchans, fr.df)
    ref = rsig.SignalRef(stg, spec, (fs[0] + fs[-1]) / 2, span)
    R.bucket(f"flags:{sum(1 << k for k, n in enumerate(('integrate_path', 'integrate_t_profile', 'integrate_f_profile', 'doppler_smearing')) if opts[n])}")
    R.bucket('path:' + spec['path']['kind'])
    R.bucket('pform:' + spec['path']['form'])
    R.bucket('tprof:' + spec['tprof']['kind'])
    R.bucket('fprof:' + spec['fprof']['kind'])
    R.bucket('bp:' + spec['bp']['kind'])
    R.bucket('bound:' + c['bound_kind'])
    R.bucket('orient:asc' if g['asc'] else 'orient:desc')
    if g.get('neg_df'):
        R.bucket('df:negative-argument')
    if g.get('int_geom'):
        R.bucket('geometry:python-integers')
    if spec['path']['form'] in ('array', 'list') and opts['doppler_smearing']:
        R.bucket('array-path-with-smearing')
    if spec['bp']['kind'] == 'array' and (hi - lo) < fr.fchans and (hi - lo) * (opts['f_subsamples'] if opts['integrate_f_profile'] else 1) == fr.fchans:
        R.bucket('bp-array:restricted-grid-length-equals-fchans')
    got = call_add_signal(fr, stg, spec, opts, c['brange'], ref, lo, hi, R)
    # "the frame's own time and frequency axes": they are inputs of the evaluation, handed to the caller's functions as they are --
    # the call must leave them exactly as it found them (a profile that shifts its argument in place shifts the frame's axis)
    R.check(np.array_equal(np.asarray(fr.ts), ts) and np.array_equal(np.asarray(fr.fs), fs), 'frame-axes-changed-by-the-call',
            ts_shift=float(np.max(np.abs(np.asarray(fr.ts, dtype=float) - ts))) if np.shape(fr.ts) == ts.shape else None,
            tprof=spec['tprof']['kind'], path=spec['path']['kind'])
    R.count('add_signal_calls')
    R.check(isinstance(got, np.ndarray) and got.shape == (g['tchans'], g['fchans']), 'return-shape',
            shape=list(np.shape(got)))
    value, bound, info = rsig.evaluate(ref, ts, fs, fr.df, fr.dt, lo, hi, opts)
    suffix = ':bounding-range-outside-band' if c['bound_kind'] in ('below', 'above') else ''
    rsig.compare(np.asarray(got, dtype=float), value, bound, R, 'pixel-mismatch' + suffix,
                 flags={k: v for k, v in opts.items()}, cols=[lo, hi])
    peak = float(np.max(np.abs(value)))
    R.mark_nontrivial(peak > 0 and bool(np.any((np.abs(value) > 1e-6 * peak) & (bound <= 1e-3 * peak))))
    # ---- validation clauses on a fresh frame (arrays of the wrong length must raise ValueError)
    if rng.random() < 0.25:
        R.bucket('validation-probe')
        T = g['tchans']
        smear = bool(rng.integers(2))
        good = T + 1 if smear else T
        fprof = stg.gaussian_f_profile(3 * fr.df)
        for L in sorted({T - 1, T, T + 1, T + 2} - {0}):
            f2 = make_frame(stg, g)
            arr = np.full(L, float(fs[len(fs) // 2]))
            try:
                out = f2.add_signal(arr, 1.0, fprof, doppler_smearing=smear, smearing_subsamples=3)
                ok = (L == good)
                key = 'array-path-wrong-length-accepted'
            except ValueError:
                ok = (L != good)
                key = 'array-path-smearing-rejected' if smear else 'array-path-rejected'
            R.check(ok, key, length=L, tchans=T, smearing=smear)
        for L in sorted({T - 1, T + 1} - {0}):
            f2 = make_frame(stg, g)
            try:
                f2.add_signal(float(fs[0]), np.ones(L), fprof)
                R.violate('array-t_profile-wrong-length-accepted', length=L, tchans=T)
            except ValueError:
                R.check(True, 'array-t_profile-wrong-length')
        f2 = make_frame(stg, g)
        try:
            f2.add_signal(float(fs[0]), 1.0, fprof, np.ones(g['fchans'] + 1))
            R.violate('array-bp-wrong-length-accepted')
        except ValueError:
            R.check(True, 'array-bp-wrong-length')


MANIFEST = {
    'text': 'Runtime monitoring: every Frame.add_signal call of a stratified workload (all 16 flag sets, every shipped '
            'path/profile family and input form, bounding ranges inside/clipped/outside, both orientations) is judged '
            'pixel-by-pixel by an independent reference evaluator with a term-wise first-order interval bound; '
            'undecidable pixels are skipped and counted, never folded into held.',
    'note': '; '.join(ASSUMPTIONS),
    'technique': 'post-condition monitor with independent reference evaluator (R-SIG) and interval bound',
}
