"""C07 -- voltage frequency registration: the written header locates every tone.

Monitor: post-condition on record() in a tone workload: the recorded file is decoded by
R-GUPPI, fine-channelised independently (own FFT + fftshift), and the peak (coarse
channel, fine bin) is mapped to sky frequency with the file's OWN header (read by R-GUPPI);
it must lie within one fine bin of the injected tone (chirp: of f_start + drift*t).
Post-conditions on get_raw_params, get_pfb_waterfall and get_waterfall_from_raw.
"""
import os
import glob
import numpy as np
from .. import common, work_raw
from ..ref import guppi

ID = 'C07'
LEVEL = 'exploration'
RULE = ('orientation x start_chan {0, middle, last} x P {16,32,64(,128,256)} x nchan x pols x antenna kind x fine FFT length L {8..64(,256)} x '
        'integration 1..8; tone offsets from a fine-bin centre {0, +-0.25, +-0.49}, kept >= 2 fine bins away from a coarse centre and within '
        '+-0.4 coarse channel of it, absolute coarse channel 0 excluded; chirps of either sign spanning 3..20 fine bins; '
        'non-trivial = a tone was located with peak/median > 50; distinct = distinct descriptor')
ASSUMPTIONS = ['fine bin j of coarse channel c (file order) maps to OBSFREQ + (c - (OBSNCHAN/NANTS - 1)/2)*CHAN_BW + (j - L/2)*CHAN_BW/L',
               'a located tone may be off by one fine bin (chirp: plus the drift over one FFT row and the PFB group delay)',
               'recordings whose peak/median power ratio is below 50 are skipped (counted), not judged',
               'get_waterfall_from_raw is only defined for dual-polarisation 8-bit files (its docstring) and is only driven there']


def required(tier):
    b = {'orient:asc': 20, 'orient:desc': 20, 'start_chan:0': 10, 'start_chan:>0': 30, 'kind:tone': 50, 'kind:chirp': 30,
         'kind:reducers': 20, 'stem-re-recorded': 40, 'reducer:aligned-header': 8, 'reducer:key-begins-with-END': 4, 'chirp:neg': 8, 'chirp:pos': 8, 'array': 10, 'reducer:from_raw': 10, 'reducer:directio-off': 3, 'reducer:directio-on': 3, 'tone:mm-wave-band-sub-Hz-bins': 10, 'chirp:second-scan-from-the-same-source': 8, 're-recorded-through-from_data:start_chan>0': 8, 'reducer:odd-fft-length': 8, 'tone-given-as:MHz': 10, 'tone-given-as:GHz': 10, 'tone-given-as:Hz': 10, 'tone-given-as:np64': 10}
    return {'buckets': b, 'counters': {'tones_located': 60, 'chirp_rows_located': 60}, 'checks': 300, 'nontrivial': 60}


def gen_cases(seed, tier):
    rng = np.random.default_rng([seed, 7])
    n = 260 if tier == 'quick' else 36000
    cases = []
    for i in range(n):
        kind = common.stratum(i, 71, ['tone', 'chirp', 'tone', 'reducers'])
        P = int(common.pick(rng, [16, 32, 64, 25, 15, 33] + ([128, 256] if tier == 'thorough' else [])))
        L = int(common.pick(rng, [8, 16, 32, 64] + ([256] if tier == 'thorough' else [])))
        if kind == 'chirp':
            L = int(common.pick(rng, [32, 64] + ([256] if tier == 'thorough' else [])))
        if kind == 'reducers' and common.stratum(i, 76, 3) == 0:
            L = int(common.pick(rng, [9, 15, 27, 7]))        # odd fine FFT lengths are lengths too
        # millimetre-wave band at sub-Hz resolution: the header must carry the band centre to far better than one part in 1e12
        hires = kind == 'tone' and common.stratum(i, 75, 5) == 0
        if hires:
            P = int(common.pick(rng, [16, 32]))
            L = int(common.pick(rng, [512, 1024]))
        nchan = int(rng.integers(1, min(P // 2 - 1, 6) + 1))
        sc_kind = common.stratum(i, 72, 3)
        maxsc = P // 2 - nchan
        sc = [0, maxsc // 2, maxsc][sc_kind]
        asc = bool(common.stratum(i, 73, 2))
        M = int(common.pick(rng, [2, 4, 8]))
        rows = int(rng.integers(4, 13)) if kind != 'chirp' else int(rng.integers(10, 25))
        if hires:
            rows = int(rng.integers(4, 7))
        spb_need = L * rows
        mult = -(-spb_need // M)
        nblocks = 1 if kind != 'chirp' else int(rng.integers(1, 3))
        cfg = work_raw.gen_config(rng, tier, i=i, P=P, M=M, nchan=nchan, start_chan=sc, mult=mult, nblocks=nblocks, asc=asc, tones=[],
                                  bits=8, dig_bits=8, digitize=bool(rng.integers(2)), nsub=int(rng.integers(1, 5)), bpf=4,
                                  noise_std=1.0, bg_noise_std=0.0, dc=0.0, vscale=1.0, period_dig=1, period_rq=1, N_dig=10000, N_rq=10000,
                                  sample_rate=float(common.pick(rng, [3e9, 2.4e9, 1e6, 48000.0])),
                                  fch1=float(common.pick(rng, [0.0, 1e9, 6e9, 8.4213e9])))
        if hires:
            cfg['sample_rate'] = float(common.pick(rng, [4096.0, 8192.0]))
            cfg['fch1'] = float(common.pick(rng, [230.538e9 + 0.45, 115.2712018e9 + 0.3, 1.00000000123e11, 345.7959899e9 + 0.7]))
        if kind == 'reducers':
            cfg['npol'] = 2
            cfg['nants'] = 1
            cfg['delays'] = None
        # choose the tone: absolute coarse channel (>= 1), fine-bin offset
        lo_c = max(sc, 1)
        if lo_c > sc + nchan - 1:
            cfg['start_chan'] = sc = 1 if maxsc >= 1 else 0
            lo_c = max(sc, 1)
            if lo_c > sc + nchan - 1:
                cfg['nchan'] = nchan = 2
                cfg['start_chan'] = sc = 0
                lo_c = 1
        cabs = int(rng.integers(lo_c, sc + nchan))
        jmax = min(int(0.4 * L), L // 2 - 2)     # stay >= 1.5 fine bins away from the wrap-around at the coarse-channel edge
        j = int(rng.integers(2, max(3, jmax + 1))) * int(common.pick(rng, [-1, 1]))
        j = max(-jmax, min(jmax, j))
        if abs(j) < 2:
            j = 2 if L >= 8 else 1
        frac = float(common.pick(rng, [0.0, 0.25, -0.25, 0.49, -0.49, float(rng.uniform(-0.5, 0.5))]))
        drift_bins = 0.0
        if kind == 'chirp':
            # start and end on the same side of the coarse centre, >= 2 bins from it, inside +-0.4 channel, >= 3 bins apart
            side = int(common.pick(rng, [-1, 1]))
            a_, b_ = 2.0, 0.4 * L - 1.0
            while True:
                s0, s1 = float(rng.uniform(a_, b_)), float(rng.uniform(a_, b_))
                if 3.0 <= abs(s1 - s0) <= 20.0:
                    break
            j, frac = int(np.floor(side * s0)), float(side * s0 - np.floor(side * s0))
            drift_bins = side * (s1 - s0)
        cases.append(dict(kind=kind, hires=bool(hires), cfg=cfg, L=L, cabs=cabs, j=j, frac=frac, drift_bins=drift_bins,
                          intf=int(rng.integers(1, 9)), level=float(rng.uniform(0.3, 1.0)),
                          directio=int(common.stratum(i, 74, 2)), sub=int(rng.integers(2 ** 31))))
    return cases


def fine_channelise(x, L):
    """x: (time,) complex -> (rows, L) power, fftshifted (own implementation of the reduction)."""
    rows = len(x) // L
    X = np.fft.fft(x[:rows * L].reshape(rows, L), axis=1) / np.sqrt(L)
    X = np.concatenate([X[:, (L + 1) // 2:], X[:, :(L + 1) // 2]], axis=1)      # fftshift written out
    return np.abs(X) ** 2


def run_case(c, R):
    stg = common.import_setigen()
    from setigen.voltage import raw_utils
    cfg, L = c['cfg'], c['L']
    tmp = os.environ['VERIF_TMP']
    R.bucket('orient:asc' if cfg['asc'] else 'orient:desc')
    R.bucket('start_chan:0' if cfg['start_chan'] == 0 else 'start_chan:>0')
    R.bucket('kind:' + c['kind'])
    if c.get('hires'):
        R.bucket('tone:mm-wave-band-sub-Hz-bins')
    if cfg['nants'] > 1:
        R.bucket('array')
    sz = work_raw.sizes(cfg)
    sgn = 1.0 if cfg['asc'] else -1.0
    chan_bw = sgn * cfg['sample_rate'] / cfg['P']
    fine = abs(chan_bw) / L
    tbin = cfg['P'] / cfg['sample_rate']
    f_tone = cfg['fch1'] + c['cabs'] * chan_bw + (c['j'] + c['frac']) * sgn * fine
    total_t = cfg['nblocks'] * sz['spb'] * tbin
    # drift_bins is the travel in fine bins of the recorded channel; sky-frequency drift has the band's sign
    # a third of the chirp cases are followed through a SECOND scan recorded from the same source: the travel is spread over both
    two_scans = c['kind'] == 'chirp' and c['_idx'] % 3 == 1
    if two_scans:
        total_t = total_t * 2.0 + 2 * cfg['M'] * tbin
    drift = (sgn * c['drift_bins'] * fine / total_t) * (1 if c['kind'] == 'chirp' else 0)
    rvb, src = work_raw.build(stg, cfg)
    ants = [src] if cfg['nants'] == 1 else src.antennas
    target = ants[-1]
    # the sky frequency / drift rate as callers have them: plain numbers (Hz, Hz/s), numpy scalars, or astropy quantities in
    # the unit the number was read in
    form = common.stratum(c['_idx'], 207, ['plain', 'plain', 'np64', 'Hz', 'MHz', 'GHz'])
    R.bucket('tone-given-as:' + form)
    f_arg, d_arg = f_tone, drift
    if form == 'np64':
        f_arg, d_arg = np.float64(f_tone), np.float64(drift)
    elif form != 'plain':
        from astropy import units as u
        f_arg = (f_tone / {'Hz': 1.0, 'MHz': 1e6, 'GHz': 1e9}[form]) * getattr(u, form)
        d_arg = drift * u.Hz / u.s if form == 'Hz' else (drift * 60.0) * u.Hz / u.min
    for s in target.streams:
        s.add_constant_signal(f_start=f_arg, drift_rate=d_arg, level=c['level'] * (2.0 if cfg['digitize'] else 1.0))
    stem = os.path.join(tmp, f"c07_{c['_idx']}")
    if c['_idx'] % 2 == 0:
        # history: the same stem held an earlier recording of ANOTHER band, which the library has already read
        R.bucket('stem-re-recorded')
        decoy = dict(cfg, fch1=cfg['fch1'] + 3.3e8, asc=not cfg['asc'], nblocks=1, tones=[], seed=cfg['seed'] + 9)
        rd = work_raw.do_record(stg, decoy, stem, header_dict={'DIRECTIO': 1 - c['directio'], 'DECOY': 1})
        with common.quiet():
            raw_utils.get_raw_params(stem, start_chan=cfg['start_chan'])
            raw_utils.read_header(rd['files'][0])
        for f in rd['files']:
            os.remove(f)
    hd = {'DIRECTIO': c['directio']}
    if c['kind'] == 'reducers':
        if c['_idx'] % 8 == 3:
            hd['ENDFREQ'] = 1420.0            # a valid card whose key begins with E N D
            R.bucket('reducer:key-begins-with-END')
        if c['_idx'] % 8 in (3, 7):
            # header of exactly 32k cards: already 512-aligned, no padding even with DIRECTIO
            ncfg = 15 + len(hd) + 1
            for k_ in range((-ncfg) % 32):
                hd[f'FILL{k_:03d}'] = k_
            R.bucket('reducer:aligned-header')
    t0 = float(src.t_start)
    rec = work_raw.do_record(stg, cfg, stem, rvb=rvb, src=src, header_dict=hd)
    try:
        _judge(stg, raw_utils, c, cfg, L, rec, stem, f_tone, drift, fine, tbin, chan_bw, sz, R)
        if c['kind'] == 'tone' and c['_idx'] % 4 == 1:
            _rerecord(stg, raw_utils, c, cfg, rec, stem, R)
    finally:
        for f in rec['files']:
            if os.path.exists(f):
                os.remove(f)
    if two_scans:
        # the chirp is a function of the source's time: in the next scan it is where f_start + drift_rate * t puts it, t running on
        R.bucket('chirp:second-scan-from-the-same-source' + (':array' if cfg['nants'] > 1 else ''))
        t1 = float(src.t_start)
        rec2 = work_raw.do_record(stg, cfg, stem + '_scan2', rvb=rvb, src=src, header_dict={'DIRECTIO': c['directio']})
        try:
            _judge(stg, raw_utils, dict(c, second_scan=True), cfg, L, rec2, stem + '_scan2', f_tone + drift * (t1 - t0), drift, fine, tbin, chan_bw,
                   sz, R)
        finally:
            for f in rec2['files']:
                if os.path.exists(f):
                    os.remove(f)


def _rerecord(stg, raw_utils, c, cfg, rec, stem, R):
    """The recording read back (same first-channel index) and recorded again through from_data: the new file's header describes the
    same band, so a tone is located by it exactly as by the input's header."""
    v = stg.voltage
    R.bucket('re-recorded-through-from_data' + (':start_chan>0' if cfg['start_chan'] > 0 else ''))
    with common.quiet():
        rp = raw_utils.get_raw_params(stem, start_chan=cfg['start_chan'])
    kw = dict(sample_rate=cfg['sample_rate'], fch1=rp['fch1'], ascending=rp['ascending'], num_pols=rp['num_pols'], seed=3)
    src2 = v.Antenna(**kw) if cfg['nants'] == 1 else v.MultiAntennaArray(num_antennas=cfg['nants'], delays=[0] * cfg['nants'], **kw)
    out = stem + '_again'
    with common.quiet():
        rvb2 = v.RawVoltageBackend.from_data(stem, src2, digitizer=v.RealQuantizer(),
                                             filterbank=v.PolyphaseFilterbank(num_taps=cfg['M'], num_branches=cfg['P']),
                                             start_chan=cfg['start_chan'], num_subblocks=1)
        rvb2.record(out, header_dict={}, digitize=False, load_template=False, verbose=False)
    files = sorted(glob.glob(out + '.????.raw'))
    try:
        hin = {k: guppi.parse_value(x) for k, x in work_raw.read_blocks(rec['files'][:1])[0]['header'].items()}
        hout = {k: guppi.parse_value(x) for k, x in work_raw.read_blocks(files[:1])[0]['header'].items()}
        for k in ('OBSFREQ', 'OBSBW', 'CHAN_BW', 'TBIN', 'OBSNCHAN'):
            ok = k in hout and isinstance(hout[k], (int, float)) and abs(float(hout[k]) - float(hin[k])) <= 1e-12 * abs(float(hin[k]))
            R.check(ok, 're-recorded-header-describes-another-band:' + k, got=hout.get(k), want=hin[k], start_chan=cfg['start_chan'])
        with common.quiet():
            rp2 = raw_utils.get_raw_params(out, start_chan=cfg['start_chan'])
        R.check(abs(rp2['fch1'] - cfg['fch1']) <= 1e-3 and rp2['ascending'] == cfg['asc'], 're-recorded-get_raw_params-fch1', got=rp2['fch1'],
                want=cfg['fch1'], start_chan=cfg['start_chan'])
    except guppi.GuppiError as e:
        R.violate('unparseable-recording:' + e.key + ':re-recorded', msg=str(e))
    finally:
        for f in files:
            if os.path.exists(f):
                os.remove(f)


def _judge(stg, raw_utils, c, cfg, L, rec, stem, f_tone, drift, fine, tbin, chan_bw, sz, R):
    try:
        blocks = work_raw.read_blocks(rec['files'])
    except guppi.GuppiError as e:
        R.violate('unparseable-recording:' + e.key, msg=str(e))
        return
    h = blocks[0]['header']
    H = {k: guppi.parse_value(v) for k, v in h.items()}
    nants = int(H.get('NANTS', 1))
    obsnchan = int(H['OBSNCHAN'])
    nchan_f = obsnchan // nants
    npol = int(H['NPOL'])
    npol = 2 if npol == 4 else npol
    cbw = float(H['CHAN_BW'])            # MHz, signed
    obsfreq = float(H['OBSFREQ'])
    R.check(abs(float(H['TBIN']) - tbin) <= 1e-13 * tbin, 'header-TBIN', got=H['TBIN'], want=tbin)
    R.check(abs(float(H['OBSBW']) - cbw * nchan_f) <= 1e-9 * abs(cbw * nchan_f), 'header-OBSBW', got=H['OBSBW'], want=cbw * nchan_f)
    data = np.concatenate([guppi.decode_block(b['data'], obsnchan, npol, int(H['NBITS'])) for b in blocks], axis=1)
    a = nants - 1                                           # the antenna that carries the tone
    if c['kind'] in ('tone', 'chirp'):
        sub = data[a * nchan_f:(a + 1) * nchan_f, :, 0]
        pw = np.stack([fine_channelise(sub[ch], L) for ch in range(nchan_f)])        # (chan, rows, L)
        rows = pw.shape[1]
        if c['kind'] == 'tone':
            tot = pw.sum(axis=1)
            ch, jj = np.unravel_index(int(np.argmax(tot)), tot.shape)
            ratio = float(tot.max() / np.median(tot))
            if ratio < 50:
                R.count('skipped_low_snr')
                R.skip('low snr')
                return
            f_est = (obsfreq + (ch - (nchan_f - 1) / 2) * cbw + (jj - L // 2) * cbw / L) * 1e6
            err_bins = (f_est - f_tone) / fine
            R.count('tones_located')
            R.maximum('tone_err_bins', abs(err_bins))
            struct = ':descending' if not cfg['asc'] else ''
            struct += ':start_chan>0' if cfg['start_chan'] > 0 else ''
            R.check(abs(err_bins) <= 1.0 + 1e-6, 'tone-not-where-header-says' + struct, f_tone=f_tone, f_est=f_est, err_bins=err_bins,
                    chan=int(ch), bin=int(jj), want_chan=c['cabs'] - cfg['start_chan'], snr=ratio)
            R.mark_nontrivial(True)
        else:
            R.bucket('chirp:neg' if drift < 0 else 'chirp:pos')
            located = 0
            worst = 0.0
            # coarse channel from the power summed over all rows (a critically sampled PFB shows an attenuated alias of the
            # tone in the neighbouring channel; per-row noise must not be allowed to pick it), fine bin per row
            ch = int(np.argmax(pw.sum(axis=(1, 2))))
            for r in range(rows):
                sl = pw[ch, r, :]
                jj = int(np.argmax(sl))
                if sl.max() / np.median(pw[:, r, :]) < 50:
                    continue
                f_est = (obsfreq + (ch - (nchan_f - 1) / 2) * cbw + (jj - L // 2) * cbw / L) * 1e6
                t_mid = (r + 0.5) * L * tbin
                want = f_tone + drift * t_mid
                slack = 1.0 + (abs(drift) * (L + cfg['M']) * tbin) / fine + 1e-6
                err = (f_est - want) / fine
                worst = max(worst, abs(err) / slack)
                located += 1
                if abs(err) > slack:
                    R.violate('chirp-not-following-f_start+drift*t' + (':descending' if not cfg['asc'] else '') + (':second-scan' if c.get('second_scan') else ''), row=r, err_bins=err,
                              slack=slack, drift=drift, f_est=f_est, want=want)
                    break
            R.count('chirp_rows_located', located)
            if located >= 3:
                R.check(True, 'chirp-not-following-f_start+drift*t')
                R.maximum('chirp_err_over_slack', worst)
                R.mark_nontrivial(True)
    # ---- inverse parameters
    with common.quiet():
        rp = raw_utils.get_raw_params(stem, start_chan=cfg['start_chan'])
    R.check(abs(rp['fch1'] - cfg['fch1']) <= 1e-3, 'get_raw_params-fch1', got=rp['fch1'], want=cfg['fch1'], start_chan=cfg['start_chan'])
    R.check(abs(abs(rp['chan_bw']) - abs(chan_bw)) <= 1e-9 * abs(chan_bw) and rp['ascending'] == cfg['asc'], 'get_raw_params-chan_bw-orientation',
            got=rp['chan_bw'], want=chan_bw)
    if c['kind'] != 'reducers':
        return
    if L % 2:
        R.bucket('reducer:odd-fft-length')
    # ---- reducers
    v = stg.voltage
    intf = c['intf']
    x = data[:nchan_f, :, 0].T            # (time, chan)
    y = data[:nchan_f, :, 1].T
    for use_y in (False, True):
        with common.quiet():
            wf = v.get_pfb_waterfall(x, y if use_y else None, fftlength=L, int_factor=intf)
        rows = x.shape[0] // L
        ref = np.concatenate([fine_channelise(x[:, ch], L) + (fine_channelise(y[:, ch], L) if use_y else 0) for ch in range(nchan_f)], axis=1)
        nint = rows // intf
        ref = ref[:nint * intf].reshape(nint, intf, nchan_f * L).sum(axis=1)
        ok = np.shape(wf) == ref.shape
        R.check(ok, 'get_pfb_waterfall-shape', got=list(np.shape(wf)), want=list(ref.shape))
        if ok and ref.size:
            R.check(bool(np.all(np.abs(wf - ref) <= 1e-9 * max(1.0, float(ref.max())))), 'get_pfb_waterfall-values-or-column-order')
    if cfg['bits'] == 8 and npol == 2 and nants == 1:
        R.bucket('reducer:from_raw')
        R.bucket('reducer:directio-on' if c['directio'] else 'reducer:directio-off')
        with common.quiet():
            wf = v.get_waterfall_from_raw(rec['files'][0], sz['block_size'], cfg['nchan'], int_factor=intf, fftlength=L)
        first = guppi.decode_block(blocks[0]['data'], obsnchan, npol, 8)
        x0, y0 = first[:, :, 0].T, first[:, :, 1].T
        rows = x0.shape[0] // L
        ref = np.concatenate([fine_channelise(x0[:, ch], L) + fine_channelise(y0[:, ch], L) for ch in range(nchan_f)], axis=1)
        nint = rows // intf
        ref = ref[:nint * intf].reshape(nint, intf, nchan_f * L).sum(axis=1)
        ok = np.shape(wf) == ref.shape
        R.check(ok, 'get_waterfall_from_raw-shape' + (':fftlength!=int_factor' if L != intf else ''), got=list(np.shape(wf)), want=list(ref.shape),
                L=L, int_factor=intf)
        if ok and ref.size:
            R.check(bool(np.all(np.abs(wf - ref) <= 1e-9 * max(1.0, float(ref.max())))),
                    'get_waterfall_from_raw-values' + ('' if c['directio'] else ':directio-off'))
        R.mark_nontrivial(True)


MANIFEST = {
    'text': 'Runtime monitoring: tones and chirps are injected into antenna streams, recorded by the real pipeline, and located in the '
            'decoded file by an independent fine channeliser; the peak is mapped to sky frequency with the file\'s own header and must be '
            'within one fine bin (both orientations, first recorded channel 0 / middle / last). Inverse parameters and the quick-look reducers '
            'are judged by post-conditions against an independent reduction.',
    'note': '; '.join(ASSUMPTIONS),
    'technique': 'end-to-end tone-locator oracle over recorded files + reducer post-conditions',
}
