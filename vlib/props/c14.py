"""C14 -- injection onto existing RAW: exact decode, same framing, stationary gain.

Monitors: wrapper on RawVoltageBackend._read_next_block (decode vs R-GUPPI decode of that
input block), wrapper on ComplexQuantizer.quantize (records custom_stds by value at every
call: the synthetic gain must be the same for every sub-block and block), post-condition
on record(): output framing vs input framing, output samples vs R-INJECT (input block +
synthetic block requantised as if embedded in unit-variance noise times the digitiser
target deviation, then the final requantisation to the input block's statistics).
"""
import os
import shutil
import numpy as np
from .. import common, work_raw, attach
from ..ref import guppi, pfb as rpfb, quant as rquant

ID = 'C14'
LEVEL = 'exploration'
FW = work_raw.FW
RULE = ('input recordings produced (a) by setigen itself and (b) by an independent GUPPI writer with random integer content and foreign '
        'cards, over 8/4 bit x 1/2 pols x 1-3 antennas x DIRECTIO on/off (aligned and unaligned headers) x 1-3 files with a partial last '
        'file; synthetic content tone / noise+tone; digitiser on/off; num_subblocks 1..windows(+2); requested length omitted / shorter / '
        'equal / longer in both length modes; non-trivial = >= 2 requantiser calls per polarisation compared and the synthetic signal '
        'changes >= 1 output sample; distinct = distinct descriptor')
ASSUMPTIONS = ['the channelised unit-noise deviations are seeded by the workload (estimate_channelized_stds(seed)) and read before recording; '
               'their statistical accuracy is not judged',
               'quantiser statistics are refreshed on every requantiser call (default period 1), two calls per sub-block; the synthetic pass '
               'uses target mean 0 and the block\'s target deviation',
               'samples compared exactly except within 1e-9 of a rounding boundary (either neighbour accepted, counted); a tie in the first '
               'pass or in the digitiser makes that call undecidable (skipped, counted)',
               'NPOL=4 in an input header denotes dual polarisation (GUPPI convention) and equals NPOL=2 in the output']
SOURCES = ['setigen', 'foreign']


def required(tier):
    b = {'source:setigen': 30, 'source:foreign': 30, 'bits:8': 30, 'bits:4': 20, 'npol:1': 20, 'npol:2': 20, 'array': 10,
         'directio:on': 20, 'directio:off': 20, 'digitize:on': 30, 'digitize:off': 20, 'multi-file-input': 20, 'length:omitted': 10,
         'length:shorter': 10, 'length:longer': 10, 'aligned-header': 3, 'subblocks>=2': 40,
         'second-recording-flipped-digitize': 30, 'lazy-unit-noise-estimate': 40, 'input:blank-block-or-dead-polarisation': 8,
         'block>10000-samples-per-stream': 15, 'unused-digitiser-with-other-statistics-settings': 15, 'retry-after-interrupted-recording': 20, 'earlier-product-next-to-the-input': 40, 'window:hann': 30, 'window:blackman': 30, 'window:boxcar': 30}
    return {'buckets': b, 'counters': {'decode_blocks_compared': 200, 'gain_calls_observed': 400, 'samples_compared': 50000},
            'checks': 1000, 'nontrivial': 60}


def gen_cases(seed, tier):
    rng = np.random.default_rng([seed, 14])
    n = 320 if tier == 'quick' else 80000
    cases = []
    for i in range(n):
        cfg = work_raw.gen_config(rng, tier, i=i, P=int(common.pick(rng, [8, 16, 32])), tones=[], nblocks=int(rng.integers(1, 7)),
                                  bpf=int(rng.integers(1, 4)), mult=int(rng.integers(1, 9)), window=common.stratum(i, 8, ['hamming', 'hamming', 'hann', 'blackman', 'boxcar']),
                                  period_dig=1, period_rq=1, N_dig=10000, N_rq=10000, dig_bits=8, dig_fwhm=32.0, rq_fwhm=32.0,
                                  noise_std=1.0, bg_noise_std=0.0)
        cfg['nchan'] = int(rng.integers(1, min(cfg['P'] // 2, 5) + 1))
        cfg['start_chan'] = int(rng.integers(0, cfg['P'] // 2 - cfg['nchan'] + 1))
        cfg['digitize'] = bool(common.stratum(i, 1, 2))
        if common.stratum(i, 7, 8 if tier == 'quick' else 64) == 0:
            # blocks holding more samples per antenna and polarisation than any "first N samples" shortcut (N = 10000) would read
            cfg['P'] = int(common.pick(rng, [8, 16]))
            cfg['nchan'] = int(min(cfg['P'] // 2, 4))
            cfg['start_chan'] = int(rng.integers(0, cfg['P'] // 2 - cfg['nchan'] + 1))
            cfg['mult'] = int(-(-int(rng.integers(10500, 14000)) // (cfg['nchan'] * cfg['M'])))
            cfg['nblocks'] = int(rng.integers(1, 3))
        cfg['delays'] = [0] * cfg['nants'] if cfg['nants'] > 1 else None
        length = common.stratum(i, 2, ['omitted', 'shorter', 'equal', 'longer'])
        cases.append(dict(cfg=cfg, source=common.stratum(i, 3, SOURCES), directio=int(common.stratum(i, 4, 2)), align=bool(common.stratum(i, 5, 7) == 0),
                          length=length, length_mode=common.stratum(i, 6, ['num_blocks', 'obs_length']),
                          nsub_out=int(rng.integers(1, cfg['mult'] + 3)), tone_chan=float(rng.uniform(0.1, 0.4)) * (1 if rng.random() < 0.5 else -1),
                          tone_level=float(rng.uniform(0.02, 0.3)), with_noise=bool(rng.integers(2)), est_seed=int(rng.integers(2 ** 31)),
                          sub=int(rng.integers(2 ** 31))))
    return cases


def make_input(stg, c, cfg, d, R):
    """Write the input recording; returns stem."""
    sz = work_raw.sizes(cfg)
    stem = os.path.join(d, 'in')
    if c['source'] == 'setigen':
        hd = {'DIRECTIO': c['directio']}
        if c['align']:
            # pad the card count to a multiple of 32 (header already 512-aligned)
            base = 15 + (1 if cfg['nants'] > 1 else 0) + 1 + 1   # config cards (+ NANTS) + DIRECTIO + END
            for k in range((-base) % 32):
                hd[f'FILL{k:03d}'] = k
        work_raw.do_record(stg, cfg, stem, header_dict=hd)
        return stem
    rng = np.random.default_rng(c['sub'])
    obsn = cfg['nants'] * cfg['nchan']
    lim = 2 ** (cfg['bits'] - 1)
    chan_bw = cfg['sample_rate'] / cfg['P'] * (1 if cfg['asc'] else -1)
    nfiles = -(-cfg['nblocks'] // cfg['bpf'])
    b = 0
    for fi in range(nfiles):
        blocks = []
        for _ in range(min(cfg['bpf'], cfg['nblocks'] - fi * cfg['bpf'])):
            scale = float(rng.uniform(0.15, 0.4)) * lim
            shape_ = rng.uniform(0.25, 1.0, size=(obsn, 1, 1))               # band-pass shape: channels differ in power
            re = np.clip(np.rint(rng.normal(0.3, scale, size=(obsn, sz['spb'], cfg['npol'])) * shape_), -lim, lim - 1)
            im = np.clip(np.rint(rng.normal(-0.2, scale, size=(obsn, sz['spb'], cfg['npol'])) * shape_), -lim, lim - 1)
            if c['_idx'] % 6 == 1 and b >= 1:
                # a dropped block: zero-filled (zero spread), after a normal one
                if (c['_idx'] // 6) % 2:
                    re[...], im[...] = 0, 0
                else:
                    re[:, :, -1], im[:, :, -1] = 0, 0          # one dead polarisation
                R.bucket('input:blank-block-or-dead-polarisation')
            hdr = {'BACKEND': 'FOREIGN', 'TELESCOP': 'ELSEWHERE', 'OBSERVER': 'somebody', 'SRC_NAME': 'B0329+54',
                   'NBITS': cfg['bits'], 'NPOL': 4 if cfg['npol'] == 2 else 1, 'OBSNCHAN': obsn,
                   'CHAN_BW': chan_bw * 1e-6, 'OBSBW': chan_bw * cfg['nchan'] * 1e-6,
                   'OBSFREQ': (cfg['fch1'] + (cfg['start_chan'] + (cfg['nchan'] - 1) / 2) * chan_bw) * 1e-6,
                   'TBIN': cfg['P'] / cfg['sample_rate'], 'SCANLEN': cfg['nblocks'] * sz['spb'] * cfg['P'] / cfg['sample_rate'],
                   'BLOCSIZE': sz['block_size'], 'DIRECTIO': c['directio'], 'PKTIDX': b * sz['spb'], 'STT_IMJD': 59114, 'FOREIGN1': 2.5}
            if cfg['nants'] > 1:
                hdr['NANTS'] = cfg['nants']
            if c['_idx'] % 5 == 2:
                hdr['ENDTIME'] = 59114.5          # a valid card whose keyword merely begins with E N D
            if c['align']:
                for k in range((-(len(hdr) + 1)) % 32):
                    hdr[f'FILL{k:03d}'] = k
            blocks.append((hdr, guppi.encode_block(re + 1j * im, cfg['bits'])))
            b += 1
        guppi.write_file(f'{stem}.{fi:04d}.raw', blocks)
    return stem


def run_case(c, R):
    stg = common.import_setigen()
    d = os.path.join(os.environ['VERIF_TMP'], f"c14_{c['_idx']}")
    os.makedirs(d, exist_ok=True)
    try:
        _run(stg, c, c['cfg'], d, R)
    finally:
        attach.restore_all()
        shutil.rmtree(d, ignore_errors=True)


def _run(stg, c, cfg, d, R):
    v = stg.voltage
    sz = work_raw.sizes(cfg)
    for k in ('source', ):
        R.bucket(f"{k}:{c[k]}")
    R.bucket(f"bits:{cfg['bits']}")
    R.bucket(f"npol:{cfg['npol']}")
    R.bucket('directio:on' if c['directio'] else 'directio:off')
    R.bucket('digitize:on' if cfg['digitize'] else 'digitize:off')
    R.bucket('length:' + c['length'])
    if cfg['nchan'] * sz['spb'] > 10000:
        R.bucket('block>10000-samples-per-stream')
    if cfg['nants'] > 1:
        R.bucket('array')
    stem_in = make_input(stg, c, cfg, d, R)
    in_files = sorted(f for f in os.listdir(d) if f.startswith('in.'))
    if len(in_files) > 1:
        R.bucket('multi-file-input')
    in_blocks = work_raw.read_blocks([os.path.join(d, f) for f in in_files])      # our own writer / C04-checked writer
    if in_blocks[0]['header_bytes'] % 512 == 0:
        R.bucket('aligned-header')
    obsn = cfg['nants'] * cfg['nchan']
    in_dec = [guppi.decode_block(b['data'], obsn, cfg['npol'], cfg['bits']) for b in in_blocks]
    if c['_idx'] % 4 == 2:
        # history: the product of an EARLIER injection onto this input lies next to it under a stem that extends the input's
        # ("in.tone.0000.raw" beside "in.0000.raw"); it is another recording, not part of this one
        R.bucket('earlier-product-next-to-the-input')
        import shutil as _sh
        for f_ in in_files:
            _sh.copy(os.path.join(d, f_), os.path.join(d, 'in.tone.' + f_[len('in.'):]))
    # ---- antenna with the synthetic content
    kw = dict(sample_rate=cfg['sample_rate'], fch1=cfg['fch1'], ascending=cfg['asc'], num_pols=cfg['npol'], seed=c['sub'])
    src = v.Antenna(**kw) if cfg['nants'] == 1 else v.MultiAntennaArray(num_antennas=cfg['nants'], delays=[0] * cfg['nants'], **kw)
    chan_bw = cfg['sample_rate'] / cfg['P'] * (1 if cfg['asc'] else -1)
    for a in ([src] if cfg['nants'] == 1 else src.antennas):
        for s in a.streams:
            if c['with_noise']:
                s.add_noise(0.0, 0.05)
            s.add_constant_signal(f_start=cfg['fch1'] + (cfg['start_chan'] + cfg['nchan'] // 2 + c['tone_chan']) * chan_bw,
                                  drift_rate=0.0, level=c['tone_level'])
    with common.quiet():
        # the digitiser handed over may be configured any way the caller likes; as long as it is not USED (digitize=False, and no
        # second recording with the flag flipped) none of its settings has any business in the output
        dig_ = v.RealQuantizer()
        if not cfg['digitize'] and c['_idx'] % 3 != 0 and c['_idx'] % 2 == 1:
            dig_ = v.RealQuantizer(stats_calc_period=int(common.pick(np.random.default_rng(c['sub']), [-1, 2, 3])),
                                   stats_calc_num_samples=int(common.pick(np.random.default_rng(c['sub'] + 1), [10000, 64])))
            R.bucket('unused-digitiser-with-other-statistics-settings')
        rvb = v.RawVoltageBackend.from_data(stem_in, src, digitizer=dig_,
                                            filterbank=v.PolyphaseFilterbank(num_taps=cfg['M'], num_branches=cfg['P'], window_fn=cfg['window']),
                                            start_chan=cfg['start_chan'], num_subblocks=c['nsub_out'])
    R.check(rvb.block_size == sz['block_size'] and rvb.num_bits == cfg['bits'] and rvb.num_chans == cfg['nchan'] and
            rvb.num_pols == cfg['npol'] and rvb.num_antennas == cfg['nants'], 'from_data-parameters')
    R.check(rvb.input_num_blocks == len(in_blocks), 'from_data-input_num_blocks', got=int(rvb.input_num_blocks), want=len(in_blocks))
    R.check(rvb.header_size == in_blocks[0]['header_bytes'] + in_blocks[0]['pad'], 'from_data-header_size', got=int(rvb.header_size),
            want=in_blocks[0]['header_bytes'] + in_blocks[0]['pad'])
    cstd = {}
    lazy = (c['_idx'] % 4 == 1)      # the filterbank's unit-noise estimate is NOT prepared: the backend makes it lazily, mid-stream
    if lazy:
        R.bucket('lazy-unit-noise-estimate')
    for a in range(cfg['nants']):
        for p in range(cfg['npol']):
            if lazy:
                continue
            with common.quiet():
                rvb.filterbank[a][p].estimate_channelized_stds(factor=300, seed=c['est_seed'] + 7 * a + p)
            cstd[(a, p)] = np.array(rvb.filterbank[a][p].channelized_stds, dtype=float).copy()
    window = np.array(rvb.filterbank[0][0].window, dtype=float)
    R.bucket('window:' + cfg['window'])

    def unit_noise_check(est, factor, tag):
        # what unit white noise becomes behind THIS filterbank, from its coefficients alone:
        #   var Re X_k = (1/P) sum_j h_j^2 cos^2(2 pi k j / P),  var Im X_k = (1/P) sum_j h_j^2 sin^2(...),  pooled over k < P/2
        P_, M_ = cfg['P'], cfg['M']
        j_ = np.arange(M_ * P_)
        k_ = np.arange(P_ // 2)[:, None]
        ph = 2 * np.pi * ((k_ * j_[None, :]) % P_) / P_
        h2 = window[None, :] ** 2
        want = np.array([np.sqrt(np.mean(np.sum(h2 * np.cos(ph) ** 2, axis=1)) / P_), np.sqrt(np.mean(np.sum(h2 * np.sin(ph) ** 2, axis=1)) / P_)])
        n_eff = max(8.0, (factor - M_) * (P_ // 2) / M_)
        tol = 6.0 / np.sqrt(2.0 * n_eff) + 1e-3
        est = np.asarray(est, dtype=float)
        rel = np.abs(est - want) / want
        R.count('unit_noise_estimates_judged')
        R.maximum('unit_noise_rel_dev_over_band', float(np.max(rel / tol)))
        R.check(bool(np.all(rel <= tol)), 'unit-noise-deviation-not-that-of-this-filterbank' + tag, got=est.tolist(), want=want.tolist(), band=tol,
                window=cfg['window'], M=M_, P=P_)
    for k_est in sorted(cstd):
        unit_noise_check(cstd[k_est], 300, ':prepared')

    def one_recording(digitize, out_name, tag):
        # ---- monitors
        decoded_log, gain_log = [], []

        def post_read(args, kwargs, result, exc, tok):
            if exc is None:
                decoded_log.append(np.array(result, copy=True))

        def pre_q(args, kwargs):
            cs = kwargs.get('custom_stds', args[2] if len(args) > 2 else None)
            if cs is not None:
                gain_log.append((id(args[0]), np.array(cs, dtype=float).copy()))
        attach.wrap(v.RawVoltageBackend, '_read_next_block', post=post_read)
        attach.wrap(v.ComplexQuantizer, 'quantize', pre=pre_q)
        nin = len(in_blocks)
        req = {'omitted': None, 'shorter': max(1, nin - 1), 'equal': nin, 'longer': nin + 2}[c['length']]
        want_blocks = nin if req is None else min(req, nin)
        stem_out = os.path.join(d, out_name)
        args = dict(header_dict={}, digitize=digitize, load_template=False, verbose=False)
        if c['length_mode'] == 'num_blocks':
            args.update(num_blocks=req, length_mode='num_blocks')
        else:
            args.update(obs_length=None if req is None else (req + 0.5) * rvb.time_per_block, length_mode='obs_length')
        bd = work_raw.Boundary(src)
        try:
            with common.quiet():
                rvb.record(stem_out, **args)
        finally:
            bd.detach()
        attach.restore_all()
        if not cstd:
            # lazily estimated by the backend with an unseeded generator: the value is whatever the filterbank objects hold now
            for a_ in range(cfg['nants']):
                for p_ in range(cfg['npol']):
                    est_ = rvb.filterbank[a_][p_].channelized_stds
                    if est_ is None:
                        R.violate('unit-noise-estimate-never-made', antenna=a_, pol=p_)
                        return
                    cstd[(a_, p_)] = np.array(est_, dtype=float).copy()
                    unit_noise_check(cstd[(a_, p_)], 10000, ':estimated-by-the-backend')
        out_files = sorted(os.path.join(d, f) for f in os.listdir(d) if f.startswith(out_name + '.'))
        try:
            out_blocks = work_raw.read_blocks(out_files)
        except guppi.GuppiError as e:
            R.violate('output-unparseable:' + e.key, msg=str(e))
            return
        # ---- framing
        R.check(len(out_blocks) == want_blocks, 'output-block-count', got=len(out_blocks), want=want_blocks, requested=req, input=nin)
        tpb_ = sz['spb'] * cfg['P'] / cfg['sample_rate']
        R.check(abs(rvb.obs_length - want_blocks * tpb_) <= 1e-12 * max(want_blocks * tpb_, 1e-300)
                and rvb.total_obs_num_samples == want_blocks * sz['spb'] * cfg['P'], 'length-bookkeeping-ignores-input-clamp',
                obs_length=rvb.obs_length, want=want_blocks * tpb_, total=int(rvb.total_obs_num_samples), requested=req, input=nin)
        if out_blocks:
            sl_ = guppi.parse_value(out_blocks[0]['header'].get('SCANLEN', 'nan'))
            R.check(isinstance(sl_, (int, float)) and abs(sl_ - want_blocks * tpb_) <= 1e-12 * max(want_blocks * tpb_, 1e-300),
                    'output-SCANLEN-ignores-input-clamp', got=sl_, want=want_blocks * tpb_)
        if not out_blocks:
            return
        hi = {k: guppi.parse_value(x) for k, x in in_blocks[0]['header'].items()}
        ho = {k: guppi.parse_value(x) for k, x in out_blocks[0]['header'].items()}
        for k in ('BLOCSIZE', 'NBITS', 'OBSNCHAN'):
            R.check(ho.get(k) == hi.get(k), 'output-framing:' + k, got=ho.get(k), want=hi.get(k))
        R.check(ho.get('NPOL') in (hi.get('NPOL'), 2 if hi.get('NPOL') == 4 else hi.get('NPOL')), 'output-framing:NPOL', got=ho.get('NPOL'), want=hi.get('NPOL'))
        R.check(int(ho.get('NANTS', 1)) == int(hi.get('NANTS', 1)), 'output-framing:NANTS', got=ho.get('NANTS'), want=hi.get('NANTS'))
        R.check(guppi.directio_of(out_blocks[0]['header']) == guppi.directio_of(in_blocks[0]['header']), 'output-framing:DIRECTIO')
        # ---- decode monitor
        R.check(len(decoded_log) == len(out_blocks), 'read-next-block-calls', got=len(decoded_log), want=len(out_blocks))
        for bi, got in enumerate(decoded_log[:len(in_dec)]):
            want = in_dec[bi].reshape(obsn, -1)
            ok = got.shape == want.shape and np.array_equal(got, want)
            R.count('decode_blocks_compared')
            R.check(ok, 'input-block-decode' + (':4bit' if cfg['bits'] == 4 else ''), block=bi,
                    nbad=int((got != want).sum()) if got.shape == want.shape else -1)
        # ---- stationary gain
        R.count('gain_calls_observed', len(gain_log))
        first = {}
        drift = None
        for qid, cs in gain_log:
            if qid not in first:
                first[qid] = cs
            elif not np.array_equal(first[qid], cs):
                drift = (first[qid].tolist(), cs.tolist())
                break
        R.check(drift is None, 'synthetic-gain-not-stationary' + (':digitize' if digitize else ''), first_and_later=drift,
                calls=len(gain_log))
        # ... and it is the channelised unit-noise deviation times the digitiser target deviation (1 without digitiser)
        want_set = [cstd[k_] * ((32.0 / FW) if digitize else 1.0) for k_ in cstd]
        bad_gain = [cs.tolist() for _, cs in gain_log if not any(np.allclose(cs, w_, rtol=1e-12, atol=0) for w_ in want_set)]
        R.check(not bad_gain, 'synthetic-gain-wrong-value' + (':' + tag if tag != 'first' else ''), got=bad_gain[:2],
                want=[w_.tolist() for w_ in want_set][:2], digitize=digitize)
        # ---- R-INJECT
        delivered = bd.log
        P, M, nchan, sc, spb = cfg['P'], cfg['M'], cfg['nchan'], cfg['start_chan'], sz['spb']
        nb = len(out_blocks)
        sizes_ = [n for n, _ in delivered]
        rows_per_call = [sizes_[0] // P - M] + [n // P for n in sizes_[1:]]
        calls_per_block = len(sizes_) // max(nb, 1)
        if calls_per_block >= 2:
            R.bucket('subblocks>=2')
        changed = False
        dig_std = 32.0 / FW
        for a in range(cfg['nants']):
            for p in range(cfg['npol']):
                if digitize:
                    dq = rquant.QuantRef(0, dig_std, 8, 1, 10000)
                    parts, dties = [], 0
                    for n, arr in delivered:
                        q, pre = dq.quantize(arr[a][p])
                        dties += int(rquant.tie_mask(pre, 8).sum())
                        parts.append(q.astype(float))
                    if dties:
                        R.count('calls_skipped_tie')
                        continue
                    stream = np.concatenate(parts)
                else:
                    stream = np.concatenate([np.asarray(arr[a][p]) for _, arr in delivered])
                X = rpfb.ref_pfb(stream, window, M, P)[:, sc:sc + nchan]
                custom = cstd[(a, p)] * (dig_std if digitize else 1.0)
                row = 0
                for ci, rows in enumerate(rows_per_call):
                    bi = row // spb
                    inp = in_dec[bi][a * nchan:(a + 1) * nchan, :, p]              # (chan, time)
                    R_, I_ = np.real(inp), np.imag(inp)
                    tm = (float(np.mean(R_)), float(np.mean(I_)))
                    ts = (float(np.std(R_)), float(np.std(I_)))
                    t0 = row - bi * spb
                    vv = X[row:row + rows]
                    outq, undecidable = [], False
                    tie_any = np.zeros((rows, nchan), dtype=bool)
                    for comp, part in enumerate((np.real(vv), np.imag(vv))):
                        q1 = rquant.QuantRef(0.0, ts[comp], cfg['bits'], 1, 10000)
                        s1, pre1 = q1.quantize(part, custom_std=float(custom[comp]))
                        if rquant.tie_mask(pre1, cfg['bits']).any():
                            undecidable = True
                        ssum = s1 + (R_ if comp == 0 else I_)[:, t0:t0 + rows].T
                        q2 = rquant.QuantRef(tm[comp], ts[comp], cfg['bits'], 1, 10000)
                        s2, pre2 = q2.quantize(ssum)
                        tie_any |= rquant.tie_mask(pre2, cfg['bits'])
                        outq.append(s2)
                        if np.any(s1 != 0):
                            changed = True
                    row += rows
                    if undecidable:
                        R.count('calls_skipped_tie')
                        continue
                    want = outq[0] + 1j * outq[1]
                    got = guppi.decode_block(out_blocks[bi]['data'], obsn, cfg['npol'], cfg['bits'])[a * nchan:(a + 1) * nchan, t0:t0 + rows, p].T
                    diff = got != want
                    bad = diff & ~(tie_any & (np.abs(got - want) <= 1.5))
                    R.count('samples_compared', int(want.size))
                    R.count('requantiser_calls_compared')
                    if bad.any():
                        r_, c_ = np.argwhere(bad)[0]
                        R.violate('output-sample-mismatch' + (':digitize' if digitize else '') + (':later-call' if ci > 0 else ':first-call'),
                                  antenna=a, pol=p, call=ci, block=bi, row=int(r_), chan=int(c_), got=complex(got[r_, c_]),
                                  want=complex(want[r_, c_]), nbad=int(bad.sum()), of=int(want.size))
                        return
                    R.check(True, 'output-sample-mismatch')
        R.mark_nontrivial(R.counters.get('requantiser_calls_compared', 0) >= 2 and changed)
        return True


    if c['_idx'] % 5 == 3 and len(in_blocks) >= 2:
        # history: an earlier recording on this backend was INTERRUPTED part-way (an exception out of the second block); the caller
        # catches it and records again -- from the first input block, like any recording
        R.bucket('retry-after-interrupted-recording')

        class _Interrupt(Exception):
            pass
        calls_ = [0]

        def pre_fail(args, kwargs):
            calls_[0] += 1
            if calls_[0] == 2:
                raise _Interrupt()
        attach.wrap(v.RawVoltageBackend, 'collect_data_block', pre=pre_fail)
        try:
            with common.quiet():
                rvb.record(os.path.join(d, 'aborted'), header_dict={}, digitize=cfg['digitize'], load_template=False, verbose=False)
            R.count('interruption_did_not_fire')
        except _Interrupt:
            R.count('interrupted_recordings')
        finally:
            attach.restore_all()
        for f_ in os.listdir(d):
            if f_.startswith('aborted.'):
                os.remove(os.path.join(d, f_))
    ok = one_recording(cfg['digitize'], 'out', 'first')
    if c['_idx'] % 3 == 0:
        # history: a second recording on the SAME backend with the digitiser flag flipped (the synthetic gain must follow the flag)
        R.bucket('second-recording-flipped-digitize')
        one_recording(not cfg['digitize'], 'out2', 'second-flipped-digitize')


MANIFEST = {
    'text': 'Runtime monitoring of injection onto existing RAW: the block decoder is wrapped and compared with an independent GUPPI decode '
            '(inputs written by setigen and by an independent writer); every requantiser call\'s custom deviations are recorded by value and '
            'must be identical throughout a recording; output framing is compared with the input\'s and output samples with the reference '
            'R-INJECT fed with the samples the antenna actually delivered.',
    'note': '; '.join(ASSUMPTIONS),
    'technique': 'wrapped-call monitors (decode, gain log) + boundary-recorded reference pipeline for the output bytes',
}
