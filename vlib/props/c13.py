"""C13 -- constant-signal helper injects the same signal as general injection.

Monitor: post-condition on Frame.add_constant_signal: compared with the general signal
(linear path, constant time profile, same frequency profile; smeared with
max(1, ceil(|drift|/unit)) sub-steps) computed by R-SIG, with the mandatory-pixel rule.
"""
import math
import numpy as np
from .. import common, work_sig
from ..ref import sig as rsig
from . import c01

ID = 'C13'
LEVEL = 'exploration'
RULE = ('stratified: 5 profile types x smearing on/off x drift class {0, +-tiny, +-0.5, +-1, +-1.5, +-4 px/step, random} x '
        'width class {0.05..0.5, 0.5..2, 2..10 px} x start position {inside, on a channel centre, within one channel of an '
        'edge, outside, entering the band only through the smeared sub-steps of the last row}, both orientations, unit-carrying and plain arguments; non-trivial = the general signal has >=1 '
        'mandatory pixel in the frame; distinct = distinct descriptor')
ASSUMPTIONS = ['mandatory pixels: general signal non-zero for box / truncated sinc^2; within FWHM/2 of a (smearing-copy) centre for '
               'gaussian / lorentzian / voigt, the voigt FWHM being computed numerically from the reference profile',
               'outside the mandatory set the helper may return either the general value or exactly 0 (optimisation box)',
               'when |drift|/unit (float division) is within 1e-9 of an integer WITHOUT being exactly one, either neighbouring sub-step count is accepted; an exact integer ratio demands exactly that count',
               'the reference for the general signal is R-SIG (the real add_signal is only used to attribute a disagreement)']
PROFILES = ['sinc2', 'box', 'gaussian', 'lorentzian', 'voigt']
DRIFTS = [0.0, 1e-4, -1e-4, 0.5, -0.5, 1.0, -1.0, 1.5, -1.5, 4.0, -4.0, None, None]


LEVEL_TYPES = ['float', 'float', 'int', 'np.float64', 'np.float32', 'np.int64', 'np.int32']


def required(tier):
    b = {f'profile:{p}': 20 for p in PROFILES}
    b.update({'smear:on': 100, 'smear:off': 100, 'drift:neg': 100, 'drift:zero': 20, 'drift:pos': 100,
              'width:sub-channel': 50, 'start:outside': 10, 'start:edge': 10, 'units:quantity': 50,
              'smear:drift-exact-multiple-of-unit': 40, 'start:edge-entry': 40, 'start:narrow-off-centre': 200})
    b.update({'level-type:' + t: 100 for t in set(LEVEL_TYPES)})
    b.update({'helper-called-twice': 300, 'helper-called-twice:out-of-band': 50, 'df:negative-argument': 100, 'geometry:python-integers': 60,
              'frame-class:Spectrum': 100, 'frame-class:Spectrum:smeared-faster-than-unit-drift': 15})
    return {'buckets': b, 'counters': {'mandatory_pixels': 5000}, 'checks': 500, 'nontrivial': 200}


def gen_cases(seed, tier):
    rng = np.random.default_rng([seed, 13])
    n = 2600 if tier == 'quick' else 320000
    cases = []
    for i in range(n):
        g = work_sig.gen_geometry(rng, tier, small=(common.stratum(i, 131, 2) == 0))
        if common.stratum(i, 139, 12) == 5:
            # a frame of a single time sample held as the library's Spectrum class (what integrate(..., as_frame=True) returns): the
            # helper is the same helper there
            g['tchans'] = 1
            g['cls'] = 'spectrum'
        F = g['fchans']
        prof = common.stratum(i, 132, PROFILES)
        smear = bool(common.stratum(i, 133, 2))
        d = common.stratum(i, 134, DRIFTS)
        if d is None:
            d = float(rng.uniform(-4, 4))
        wc = common.stratum(i, 135, 3)
        w = [float(rng.uniform(0.05, 0.5)), float(rng.uniform(0.5, 2)), float(rng.uniform(2, 10))][wc]
        r = rng.random()
        if r < 0.45:
            x, sc = float(rng.uniform(0, F - 1)), 'inside'
        elif r < 0.7:
            x, sc = float(rng.integers(0, F)), 'centre'
        elif r < 0.85:
            x, sc = float(common.pick(rng, [-1.0, -0.5, 0.0, 0.3, F - 1.3, F - 1.0, F - 0.5, F + 0.0])), 'edge'
        else:
            x, sc = float(common.pick(rng, [-rng.uniform(1.5, 8), F + rng.uniform(0.5, 8)])), 'outside'
        if common.stratum(i, 136, 25) == 11:
            # edge entry: the track is still a few channels OUTSIDE the band at the last time sample, but the smeared sub-steps of
            # the last row (up to one more time step of drift) reach the edge channel
            sc, smear = 'edge-entry', True
            d = float(common.pick(rng, [4.0, 3.0, -4.0, -3.0, 2.5, -2.5]))
            w = float(rng.uniform(0.3, 1.0))
            Tn = g['tchans']
            out_by = float(rng.uniform(1.6, abs(d) - 0.3))          # distance of the last centre from the edge channel
            x = (-out_by - d * (Tn - 1)) if d > 0 else (F - 1 + out_by - d * (Tn - 1))
        if common.stratum(i, 138, 6) == 0 and sc != 'edge-entry' and F >= 12:
            # narrow signal, start well off its channel centre, fractional drift away from the centre side: the track ends on a
            # channel that integer truncation of the helper's bounding box is most likely to leave out
            sc = 'narrow-off-centre'
            w = float(rng.uniform(0.05, 0.3))
            delta = float(rng.uniform(min(1.5 * w, 0.45), 0.49))
            side = -1.0 if rng.random() < 0.7 else 1.0
            Tn = g['tchans']
            dmag = float(common.pick(rng, [0.25, 0.3, 0.6, 0.77, 1.21, float(rng.uniform(0.02, 2.0))]))
            if Tn > 1 and rng.random() < 0.5:
                # total drift over the frame with a chosen fractional part
                dmag = (int(rng.integers(0, 2 * Tn)) + float(rng.uniform(0.02, 0.98))) / (Tn - 1) if Tn > 1 else dmag
                dmag = min(dmag, 3.9)
            d = side * dmag
            k0 = int(rng.integers(int(F * 0.4), int(F * 0.6) + 1)) if side * (Tn - 1) * dmag > -0.4 * F and abs((Tn - 1) * dmag) < 0.35 * F \
                else (F - 3 if side < 0 else 2)
            x = k0 + side * delta
            smear = bool(smear and rng.random() < 0.3)
        cases.append(dict(geom=g, profile=prof, smear=smear, d=d, w=w, x=x, start_class=sc,
                          level=float(common.pick(rng, [1.0, 10.0, 250.0])), units=bool(rng.integers(2)), level_type=common.stratum(i, 137, LEVEL_TYPES),
                          sub=int(rng.integers(2 ** 31))))
    return cases


def general_spec(c, f_start, drift, width):
    p = c['profile']
    if p == 'voigt':
        fprof = dict(kind='voigt', g_width=width, l_width=width)
    elif p == 'sinc2':
        fprof = dict(kind='sinc2', width=width, mode='crossing', trunc=True)
    else:
        fprof = dict(kind=p, width=width)
    return dict(path=dict(kind='constant', f_start=f_start, drift=drift, form='callable'),
                tprof=dict(kind='constant', level=c['level'], form='callable'),
                fprof=fprof, bp=dict(kind='constant', level=1.0))


def half_width(fprof_fn, width):
    """FWHM/2 of a tailed profile, numerically (bisection on the reference profile)."""
    lo, hi = 0.0, 10 * width
    for _ in range(200):
        mid = 0.5 * (lo + hi)
        if fprof_fn(np.array([mid]), 0.0)[0] > 0.5:
            lo = mid
        else:
            hi = mid
    return lo


def run_case(c, R):
    stg = common.import_setigen()
    from astropy import units as u
    g = c['geom']
    fr = c01.make_frame(stg, g, seed=c['sub'])
    fs = np.array(fr.fs, dtype=float)
    ts = np.array(fr.ts, dtype=float)
    f_start = float(fs[0]) + c['x'] * fr.df
    drift = c['d'] * fr.df / fr.dt
    width = c['w'] * fr.df
    R.bucket('profile:' + c['profile'])
    if g.get('cls') == 'spectrum':
        R.bucket('frame-class:Spectrum')
        if c['smear'] and abs(c['d']) > 1:
            R.bucket('frame-class:Spectrum:smeared-faster-than-unit-drift')
    if g.get('neg_df'):
        R.bucket('df:negative-argument')
    if g.get('int_geom'):
        R.bucket('geometry:python-integers')
    R.bucket('smear:on' if c['smear'] else 'smear:off')
    R.bucket('drift:zero' if c['d'] == 0 else ('drift:neg' if c['d'] < 0 else 'drift:pos'))
    if c['w'] < 1:
        R.bucket('width:sub-channel')
    R.bucket('start:' + c['start_class'])
    if c['units']:
        R.bucket('units:quantity')
        args = dict(f_start=(f_start * 1e-6) * u.MHz, drift_rate=drift * u.Hz / u.s, width=width * u.Hz)
        f_start = float(((f_start * 1e-6) * u.MHz).to(u.Hz).value)
    else:
        args = dict(f_start=f_start, drift_rate=drift, width=width)
    # the level as the kinds of number a caller has in hand (a numpy scalar read out of an array as readily as a Python float)
    lt = c.get('level_type', 'float')
    R.bucket('level-type:' + lt)
    lvl = {'float': float, 'int': int, 'np.float64': np.float64, 'np.float32': np.float32, 'np.int64': np.int64,
           'np.int32': np.int32}[lt](c['level'])
    h = fr.add_constant_signal(level=lvl, f_profile_type=c['profile'], doppler_smearing=c['smear'], **args)
    R.count('helper_calls')
    R.check(isinstance(h, np.ndarray) and h.shape == tuple(fr.shape), 'return-shape')
    R.check(np.array_equal(fr.data, h), 'helper-data-delta-differs-from-return')
    # sub-step count for the smeared general signal
    ratio = abs(drift) / (g['df'] / g['dt'])          # |drift| / unit drift, the unit drift from the resolutions the frame was built with
    ns = [max(1, math.ceil(ratio))]
    if ratio != round(ratio) and abs(ratio - round(ratio)) < 1e-9 and round(ratio) >= 1:
        # not representable as an integer but within rounding of one: another evaluation order may land on the other side
        ns = sorted({max(1, int(round(ratio))), max(1, int(round(ratio)) + 1)})
    elif ratio == round(ratio) and ratio >= 1 and c['smear']:
        R.bucket('smear:drift-exact-multiple-of-unit')
    spec = general_spec(c, f_start, drift, width)
    verdicts = []
    for n in ns:
        opts = dict(doppler_smearing=c['smear'], smearing_subsamples=n)
        ref = rsig.SignalRef(stg, spec, (fs[0] + fs[-1]) / 2, fr.df * fr.fchans)
        value, bound, info = rsig.evaluate(ref, ts, fs, fr.df, fr.dt, 0, fr.fchans, opts)
        peak = c['level']
        dec = bound <= 1e-3 * peak
        # mandatory set
        if c['profile'] in ('box', 'sinc2'):
            mand = value != 0
        else:
            hw = half_width(ref.fprof, width)
            P = info['P']
            mand = np.zeros(value.shape, dtype=bool)
            nn = n if c['smear'] else 1
            for k in range(nn):
                cen = P[:len(ts)] + (k * (P[1:len(ts) + 1] - P[:len(ts)]) / nn if c['smear'] else 0.0)
                mand |= np.abs(fs[None, :] - cen[:, None]) <= hw * (1 - 1e-9)
        err = np.abs(h - value)
        okv = err <= bound
        bad_m = dec & mand & ~okv
        bad_o = dec & ~mand & ~okv & (h != 0)
        verdicts.append((n, bad_m, bad_o, mand, dec, value, bound))
        if not bad_m.any() and not bad_o.any():
            break
    n, bad_m, bad_o, mand, dec, value, bound = verdicts[-1] if all(v[1].any() or v[2].any() for v in verdicts) else \
        [v for v in verdicts if not v[1].any() and not v[2].any()][0]
    R.count('mandatory_pixels', int((mand & dec).sum()))
    R.count('pixels_undecidable', int((~dec).sum()))
    struct = []
    if c['smear'] and c['d'] <= 0:
        struct.append('smear-drift-nonpositive')
    if c['w'] < 1.0:
        struct.append('sub-channel-width')
    skey = (':' + '+'.join(struct)) if struct else ''
    if bad_m.any():
        i, j = np.argwhere(bad_m)[0]
        # attribute: what does the real general injection give here?
        f2 = c01.make_frame(stg, g)
        gen = f2.add_signal(stg.constant_path(f_start, drift), stg.constant_t_profile(c['level']),
                            rsig.build_lib_fprof(stg, spec['fprof']), stg.constant_bp_profile(1),
                            doppler_smearing=c['smear'], smearing_subsamples=n)
        R.violate('mandatory-pixel-mismatch' + skey, row=int(i), col=int(j), helper=float(h[i, j]), want=float(value[i, j]),
                  general_real=float(gen[i, j]), bound=float(bound[i, j]), nbad=int(bad_m.sum()), n=n,
                  helper_all_zero=bool(not np.any(h)))
    else:
        R.check(True, 'mandatory-pixel-mismatch')
    if bad_o.any():
        i, j = np.argwhere(bad_o)[0]
        R.violate('non-mandatory-pixel-neither-general-nor-zero' + skey, row=int(i), col=int(j), helper=float(h[i, j]),
                  want=float(value[i, j]), bound=float(bound[i, j]), nbad=int(bad_o.sum()))
    else:
        R.check(True, 'non-mandatory-pixel-neither-general-nor-zero')
    # wherever the helper put anything at all it is THE general injection: same shipped profile object, same path, same constant
    # time profile, same sub-step count, evaluated on the frame's own axes -- elementwise arithmetic on identical inputs, so the
    # values are identical, not merely close (a helper that computes on a re-derived frequency axis is off by an ulp of the sky
    # frequency: invisible to the interval bound above, decisive for a box edge on a channel centre)
    lib_prof = {'gaussian': lambda: stg.gaussian_f_profile(width), 'lorentzian': lambda: stg.lorentzian_f_profile(width),
                'voigt': lambda: stg.voigt_f_profile(width, width), 'sinc2': lambda: stg.sinc2_f_profile(width),
                'box': lambda: stg.box_f_profile(width)}[c['profile']]
    nzm = h != 0
    exact = []
    for n_ in ns:
        f3 = c01.make_frame(stg, g)
        gen_ = f3.add_signal(stg.constant_path(f_start, drift), stg.constant_t_profile(lvl), lib_prof(), stg.constant_bp_profile(level=1),
                             doppler_smearing=c['smear'], smearing_subsamples=n_)
        exact.append(int((h[nzm] != gen_[nzm]).sum()))
    R.count('bitwise_general_comparisons')
    R.count('bitwise_pixels_compared', int(nzm.sum()))
    R.check(min(exact) == 0, 'helper-value-differs-bitwise-from-general-injection', nbad=min(exact), of=int(nzm.sum()), profile=c['profile'],
            smear=c['smear'])
    ok_all = np.abs(h - value) <= bound
    R.maximum('sig_err_over_bound', float(np.max(np.where(dec & mand & (bound > 0), np.abs(h - value) / np.where(bound > 0, bound, 1), 0))))
    R.mark_nontrivial(bool((mand & dec).any()))
    # a second, identical helper call on the same frame after the caller has written into the first result (total = first;
    # total += next): the helper's answer is a function of its arguments, not of what became of an earlier answer
    if c['sub'] % 2 == 0 or c['start_class'] == 'outside':
        R.bucket('helper-called-twice' + (':out-of-band' if not np.any(h) else ''))
        first = h.copy()
        h += 2.5
        if True:
            d0 = fr.data.copy()
            h2 = fr.add_constant_signal(level=lvl, f_profile_type=c['profile'], doppler_smearing=c['smear'], **args)
            R.check(np.array_equal(h2, first), 'second-identical-helper-call-differs', nbad=int((h2 != first).sum()),
                    first_all_zero=bool(not np.any(first)))
            delta_ok = np.abs((fr.data - d0) - h2) <= 2 * np.spacing(np.maximum(np.abs(fr.data), np.abs(d0)))
            R.check(bool(np.all(delta_ok)), 'second-helper-call-data-delta-differs-from-return')


MANIFEST = {
    'text': 'Runtime monitoring: every add_constant_signal call of a stratified workload (5 profiles, smearing on/off, drift of '
            'either sign incl. 0, sub-channel widths, starts inside/edge/outside) is compared with the general signal '
            'computed by the independent evaluator, using the mandatory-pixel rule of the property.',
    'note': '; '.join(ASSUMPTIONS),
    'technique': 'helper-vs-general differential post-condition with independent reference evaluator',
}
