"""Monitor attachment from outside the repository: class-level wrappers.

wrap(cls, name, post=..., pre=...) replaces cls.name by a recording wrapper that
every existing reference to the class sees; the post hook also runs when the
call raises (exc is not None) -- needed for C16. restore_all() undoes everything.
"""
import functools

_installed = []


def wrap(owner, name, pre=None, post=None):
    orig = owner.__dict__[name] if isinstance(owner, type) else getattr(owner, name)
    raw = orig
    kind = None
    if isinstance(orig, staticmethod):
        kind, raw = staticmethod, orig.__func__
    elif isinstance(orig, classmethod):
        kind, raw = classmethod, orig.__func__

    @functools.wraps(raw)
    def wrapper(*args, **kwargs):
        token = pre(args, kwargs) if pre else None
        try:
            result = raw(*args, **kwargs)
        except BaseException as exc:
            if post:
                post(args, kwargs, None, exc, token)
            raise
        if post:
            post(args, kwargs, result, None, token)
        return result

    wrapper.__verif_wrapped__ = raw
    setattr(owner, name, kind(wrapper) if kind else wrapper)
    _installed.append((owner, name, orig))
    return wrapper


def restore_all():
    while _installed:
        owner, name, orig = _installed.pop()
        setattr(owner, name, orig)


def invariant(cls, cond, on_fail, methods=None, counter=None):
    """Evaluate cond(self) after every public method of cls (incl. __init__);
    hand-written equivalent of icontract.invariant that also counts evaluations."""
    names = methods or [n for n, v in vars(cls).items()
                        if callable(v) and (not n.startswith('_') or n == '__init__')
                        and not isinstance(v, (staticmethod, classmethod, type))]
    for n in names:
        def post(args, kwargs, result, exc, token, _n=n):
            if exc is not None or not args:
                return
            self = args[0]
            if counter is not None:
                counter[0] += 1
            msg = cond(self)
            if msg:
                on_fail(_n, msg)
        wrap(cls, n, post=post)
