"""Worker: runs a shard of cases of one property in a fresh interpreter.

usage: python -B -m vlib.worker <prop> <shard.json> <out.jsonl> [--verbose]
One JSON line per finished case is appended (and flushed) to out.jsonl; a line
{"_begin": idx} precedes each case so the parent can tell which case killed us.
"""
import os
import sys
import json
import time
import traceback
import faulthandler
import importlib
import warnings

from . import common


def classify_exception(exc):
    """An exception escaping run_case: raised from inside the tree under test
    (=> behaviour of setigen on an input the workload considers valid) or from
    the harness (=> our bug, inconclusive)."""
    tb = traceback.extract_tb(exc.__traceback__)
    sdir = common.setigen_dir()
    inner = None
    for fr in tb:
        if os.path.realpath(fr.filename).startswith(sdir):
            inner = fr
    if inner is not None:
        rel = os.path.realpath(inner.filename)[len(sdir):]
        return 'unexpected-exception:%s:%s:%s' % (type(exc).__name__, rel, inner.name)
    return None


def run_one(mod, case, verbose=False):
    R = common.Recorder(case)
    t0 = time.time()
    try:
        with warnings.catch_warnings():
            warnings.simplefilter('ignore')
            if case.get('kind') == '__suite__':
                from . import suitemon
                suitemon.run(mod.ID, R)
            else:
                mod.run_case(case, R)
        res = R.result()
    except BaseException as exc:  # noqa
        if isinstance(exc, KeyboardInterrupt):
            raise
        key = classify_exception(exc)
        tbtxt = ''.join(traceback.format_exception(type(exc), exc, exc.__traceback__))[-3000:]
        res = R.result()
        if key is not None:
            res['status'] = 'violated'
            res['violations'] = res['violations'] + [{'key': key, 'detail': {'traceback': tbtxt}}]
        else:
            res['status'] = 'error'
            res['reason'] = tbtxt
    res['wall'] = round(time.time() - t0, 4)
    res['idx'] = case['_idx']
    res['hash'] = common.case_hash(case)
    if verbose:
        print(json.dumps(res, indent=1, default=common._json_default))
    return res


def main(argv):
    prop, shard, out = argv[0], argv[1], argv[2]
    verbose = '--verbose' in argv
    faulthandler.enable()
    mod = importlib.import_module('vlib.props.' + prop.lower())
    common.import_setigen()
    if hasattr(mod, 'setup'):
        mod.setup()
    cases = json.load(open(shard))
    done = set()
    if os.path.exists(out):
        for line in open(out):
            try:
                d = json.loads(line)
            except Exception:
                continue
            if 'idx' in d:
                done.add(d['idx'])
            elif '_begin' in d:
                done.add(d['_begin'])      # a begun-but-unfinished case is not retried
    per_case_timeout = float(os.environ.get('VERIF_CASE_TIMEOUT', '300'))
    with open(out, 'a') as fo:
        for case in cases:
            if case['_idx'] in done:
                continue
            fo.write(json.dumps({'_begin': case['_idx']}) + '\n')
            fo.flush()
            faulthandler.dump_traceback_later(per_case_timeout, exit=True)
            res = run_one(mod, case, verbose)
            faulthandler.cancel_dump_traceback_later()
            fo.write(json.dumps(res, default=common._json_default) + '\n')
            fo.flush()
    if hasattr(mod, 'teardown'):
        mod.teardown()


if __name__ == '__main__':
    main(sys.argv[1:])
