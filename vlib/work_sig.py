"""Stratified workload generator for signal injection (shared by C01, C06, C16)."""
import numpy as np
from . import common

PATH_KINDS = ['constant', 'squared', 'sine', 'rfi_us', 'rfi_ns', 'rfi_uw', 'rfi_nw', 'custom_scalar']
PATH_FORMS = ['callable', 'callable', 'callable', 'array', 'list', 'scalar', 'int']
TPROF_KINDS = ['constant', 'sine', 'pgauss_up', 'pgauss_down', 'pgauss_rand', 'custom_scalar', 'custom_poly']
TPROF_FORMS = ['callable', 'callable', 'callable', 'array', 'list', 'scalar', 'int']
FPROF_KINDS = ['box', 'gaussian', 'multi', 'lorentzian', 'voigt', 'sinc2_c_t', 'sinc2_f_t', 'sinc2_c_n', 'sinc2_f_n', 'custom_abs']
BP_KINDS = ['none', 'scalar', 'constant', 'cos', 'array']
BOUND_KINDS = ['none', 'none', 'inside', 'clip_lo', 'clip_hi', 'below', 'above', 'empty', 'full', 'open_hi', 'open_lo', 'open']


def gen_geometry(rng, tier, small=False):
    if rng.random() < 0.3:
        fchans = int(common.pick(rng, [1, 2, 3, 8, 16, 31, 64, 128, 256]))
    else:
        fchans = int(rng.integers(1, 97 if small else (513 if tier == 'quick' else 1500)))
    tchans = int(common.pick(rng, [1, 2, 3, 4, 8, 16])) if rng.random() < 0.4 else int(rng.integers(1, 13 if small else 49))
    if rng.random() < 0.7:
        df = float(common.pick(rng, common.UGLY_DF))
        dt = float(common.pick(rng, common.UGLY_DT))
    else:
        df = float(10 ** rng.uniform(-1, 4))
        dt = float(10 ** rng.uniform(-2, 1.5))
    fch1 = float(common.pick(rng, common.UGLY_FCH1)) if rng.random() < 0.7 else float(10 ** rng.uniform(8, 10.6))
    if fch1 - fchans * df < 1e6:
        fch1 = fchans * df + 1e8
    int_geom = bool(rng.random() < 0.06)
    if int_geom:
        # a geometry written with plain Python integers (df=2, dt=1, fch1=1420000000): every derived frequency is then an integer type
        df, dt = float(common.pick(rng, [1, 2, 3])), float(common.pick(rng, [1, 2]))
        fch1 = float(common.pick(rng, [1420000000, 6000000000, 1000000]))
        if fch1 - fchans * df < 1e5:
            fch1 = float(int(fchans * df) + 1000000)
    return dict(fchans=fchans, tchans=tchans, df=df, dt=dt, fch1=fch1, asc=bool(rng.integers(2)), neg_df=bool(rng.random() < 0.15),
                int_geom=int_geom)


def axes_of(g):
    """fmin for a geometry (exact enough for placing signals)."""
    if g['asc']:
        return g['fch1']
    return g['fch1'] - (g['fchans'] - 1) * g['df']


def gen_signal(rng, g, i=None, kinds=None):
    """One signal spec; i (if given) drives the stratification of discrete strata."""
    def stratum(seq, salt):
        if i is None:
            return common.pick(rng, seq)
        # balanced but mutually DE-CORRELATED strata: plain modular counters alias with each other and with the 16 flag sets
        # (i % 8 is a function of i % 16: each path family would only ever meet two flag sets). Mix the index first.
        z = (i * 0x9E3779B97F4A7C15 + salt * 0xBF58476D1CE4E5B9) & 0xFFFFFFFFFFFFFFFF
        z ^= z >> 31
        z = (z * 0x94D049BB133111EB) & 0xFFFFFFFFFFFFFFFF
        z ^= z >> 29
        return seq[z % len(seq)]
    fmin, df, dt, F, T = axes_of(g), g['df'], g['dt'], g['fchans'], g['tchans']
    # start position in channel units
    r = rng.random()
    if r < 0.5:
        x = float(rng.uniform(0, F))
    elif r < 0.62:
        x = float(rng.integers(0, F))                      # exactly on a channel centre
    elif r < 0.7:
        x = float(rng.integers(0, F)) + 0.5                # half way between channels
    elif r < 0.8:
        x = float(common.pick(rng, [-0.6, 0.0, 0.4, F - 1.0, F - 0.6, F - 0.4]))
    elif r < 0.9:
        x = float(rng.uniform(-6, 0))                      # below the band
    else:
        x = float(F + rng.uniform(0, 6))                   # above the band
    d = float(common.pick(rng, [0.0, 0.5, -0.5, 1.0, -1.0, 1.5, -1.5, 4.0, -4.0, 1e-3, -1e-3])) if rng.random() < 0.5 \
        else float(rng.normal() * 2)
    drift = d * df / dt
    pk = stratum(PATH_KINDS, 1)
    path = {'f_start': fmin + x * df, 'drift': drift}
    if pk.startswith('rfi'):
        path.update(kind='rfi', spread=float(rng.uniform(0.5, 8)) * df,
                    spread_type='uniform' if pk[4] == 'u' else 'normal',
                    rfi_type='stationary' if pk[5] == 's' else 'random_walk', seed=int(rng.integers(2 ** 31)))
    elif pk == 'sine':
        path.update(kind='sine', period=float(rng.uniform(2, 40)) * dt, amplitude=float(rng.uniform(0.5, 10)) * df)
        if i is not None and stratum([0, 1, 2], 17) == 0:
            # period handed over as a Quantity in minutes (r10_C01_1); the reference takes astropy's own conversion of that Quantity
            from astropy import units as u
            path['period_min'] = path['period'] / 60.0
            path['period'] = float((path['period_min'] * u.min).to_value(u.s))
    else:
        path.update(kind=pk)
    pform = stratum(PATH_FORMS, 3)
    if pk == 'custom_scalar' and pform in ('array', 'list'):
        pform = 'callable'
    path['form'] = pform
    path['np64'] = bool(rng.integers(2))
    tk = stratum(TPROF_KINDS, 5)
    tprof = {'level': float(common.pick(rng, [1.0, 2.0, 10.0, 0.37, 1e3]))}
    if tk == 'sine':
        tprof.update(kind='sine', period=float(rng.uniform(2, 30)) * dt, phase=float(rng.uniform(0, 10)) * dt,
                     amplitude=float(rng.uniform(0, 1)))
        if i is not None and stratum([0, 1, 2], 19) == 0:
            from astropy import units as u
            tprof['period_min'] = tprof['period'] / 60.0
            tprof['period'] = float((tprof['period_min'] * u.min).to_value(u.s))
    elif tk.startswith('pgauss'):
        direction = tk.split('_')[1]
        tprof.update(kind='pgauss', pulse_width=float(rng.uniform(0.5, 4)) * dt, period=float(rng.uniform(3, 12)) * dt,
                     phase=float(rng.uniform(0, 5)) * dt, pnum=int(rng.integers(1, 6)), direction=direction,
                     amplitude=float(rng.uniform(0.2, 2)), min_level=float(common.pick(rng, [0.0, 0.5])),
                     offset_width=float(common.pick(rng, [0.0, 0.0, 0.3])) * dt if direction != 'rand' else 0.2 * dt,
                     seed=int(rng.integers(2 ** 31)))
    elif tk == 'custom_poly':
        tprof.update(kind='custom_poly', slope=float(rng.uniform(-0.5, 0.5)) / (T * dt))
    else:
        tprof.update(kind=tk)
    tform = stratum(TPROF_FORMS, 7)
    tprof['form'] = tform
    tprof['np64'] = bool(rng.integers(2))
    if tform == 'int':
        tprof['level'] = float(max(1, int(tprof['level'])))
    fk = stratum(FPROF_KINDS, 11)
    w = float(common.pick(rng, [0.05, 0.3, 0.5, 1.0, 2.0, 3.0])) if rng.random() < 0.4 else float(10 ** rng.uniform(-1.3, 1.3))
    if fk.startswith('sinc2'):
        _, mode, tr = fk.split('_')
        fprof = dict(kind='sinc2', width=w * df, mode='crossing' if mode == 'c' else 'fwhm', trunc=(tr == 't'))
    elif fk == 'custom_abs':
        fprof = dict(kind='custom_abs', width=max(w, 0.5) * df, comb=float(rng.uniform(2.5, 9)) * df, f_ref=fmin + float(rng.uniform(0, F)) * df,
                     growth=float(rng.uniform(0.0, 0.4)))
    elif fk == 'voigt':
        fprof = dict(kind='voigt', g_width=w * df, l_width=float(10 ** rng.uniform(-1, 1)) * df)
        r_ = rng.random()
        if r_ < 0.15:
            fprof['g_width'] = 0.0           # pure Lorentzian limit
        elif r_ < 0.3:
            fprof['l_width'] = 0.0           # pure Gaussian limit
    else:
        fprof = dict(kind=fk, width=w * df)
    bk = stratum(BP_KINDS, 13)
    bp = {'kind': bk, 'level': float(common.pick(rng, [1.0, 0.5, 0.25])), 'cycles': float(rng.uniform(0.3, 3))}
    if bk == 'scalar' and rng.random() < 0.3:
        bp['level'] = 1                                    # python int
    bp['np64'] = bool(rng.integers(2))
    return dict(path=path, tprof=tprof, fprof=fprof, bp=bp)


def gen_opts(rng, i):
    flags = i % 16
    o = dict(integrate_path=bool(flags & 1), integrate_t_profile=bool(flags & 2),
             integrate_f_profile=bool(flags & 4), doppler_smearing=bool(flags & 8),
             t_subsamples=int(rng.integers(1, 13)), f_subsamples=int(rng.integers(1, 13)),
             smearing_subsamples=int(rng.integers(1, 13)))
    return o


def gen_bounding(rng, g, kind):
    """Bounding frequency range for a stratum; frequencies chosen away from half-way points."""
    fmin, df, F = axes_of(g), g['df'], g['fchans']

    def fr(x):
        return fmin + x * df
    off = lambda: float(rng.uniform(-0.35, 0.35))  # noqa: E731
    if kind == 'none':
        return None
    if kind == 'full':
        return [fr(0), fr(F)]
    if kind == 'inside':
        a = int(rng.integers(0, F))
        b = int(rng.integers(a, F + 1))
        return [fr(a + off()), fr(b + off())]
    if kind == 'clip_lo':
        return [fr(-float(rng.integers(1, 9)) + off()), fr(int(rng.integers(0, F + 1)) + off())]
    if kind == 'clip_hi':
        return [fr(int(rng.integers(0, F + 1)) + off()), fr(F + float(rng.integers(1, 9)) + off())]
    if kind == 'below':
        a = -float(rng.integers(3, 40))
        return [fr(a + off()), fr(a + float(rng.integers(1, 3)) + off()) if a < -3 else fr(-1 + off())]
    if kind == 'above':
        a = F + float(rng.integers(1, 40))
        return [fr(a + off()), fr(a + float(rng.integers(1, 9)) + off())]
    if kind == 'empty':
        a = int(rng.integers(0, F + 1))
        return [fr(a + 0.2), fr(a - 0.2)]
    # "everything above / below / everywhere", written with an infinite bound
    if kind == 'open_hi':
        return [fr(int(rng.integers(0, F)) + off()), float('inf')]
    if kind == 'open_lo':
        return [float('-inf'), fr(int(rng.integers(1, F + 1)) + off())]
    if kind == 'open':
        return [float('-inf'), float('inf')]
    raise ValueError(kind)
