"""The repository's own test suite as one more workload, run under PASSIVE monitors.

The 55 tests drive the library the way its maintainer does (plots, normalisation, file splitting, the documented voltage
tutorials ...) -- usage patterns the generated workloads do not contain.  The tests' own assertions are not of interest here;
what is: while they run, class-level wrappers (vlib.attach) watch every call that a property speaks about and evaluate the
same oracles the generated workloads use.  This file is (a) a pytest plugin (`-p vlib.suitemon`, monitors chosen with the
environment variable SUITEMON_PROP, result written as JSON to SUITEMON_OUT) and (b) `run(prop, R)`, called by a property
module for its case of kind 'suite': copies the tests next to the scratch directory, runs pytest in a fresh interpreter against
the tree under test (VERIF_REPO) and folds what the monitors observed into the case's Recorder.

Monitors never change what the code under test computes: they copy state before a call and compare after it, re-read files the
code has just written, and never draw from a random generator the library uses.  While a monitor runs, all monitors are
switched off (re-entrancy guard) so that the library calls a monitor makes itself are not observed.
"""
import glob
import json
import os
import shutil
import subprocess
import sys

import numpy as np

PROPS = ('C03', 'C04', 'C05', 'C06', 'C09', 'C10', 'C16', 'C17', 'C18', 'C20')


# ------------------------------------------------------------------------------------------------ monitors (plugin side)

class _State:
    def __init__(self):
        from . import common
        self.R = common.Recorder({'kind': 'suite'})
        self.busy = 0
        self.in_cadence_injection = 0
        self.test = '?'
        self.passed = self.failed = self.skipped = 0

    def violate(self, key, **detail):
        self.R.violate(key, test=self.test, **detail)


S = None


def _guarded(fn):
    """Monitor bodies: never re-entrant, and an exception inside one is a harness error (recorded, not raised into the test)."""
    def g(*a, **k):
        if S.busy:
            return None
        S.busy += 1
        try:
            return fn(*a, **k)
        except Exception as exc:  # noqa
            S.R.count('monitor_errors')
            S.R.counters.setdefault('monitor_error_first', repr(exc)[:300] + ' in ' + fn.__name__ + ' during ' + S.test)
            return None
        finally:
            S.busy -= 1
    g.__name__ = fn.__name__
    return g


def _install(prop):
    from . import attach, common
    stg = common.import_setigen()
    Frame, Cadence = stg.Frame, stg.Cadence

    # Cadence.add_signal legitimately shifts each frame's ts for the duration of the inner Frame.add_signal call
    def cad_pre(args, kwargs):
        S.in_cadence_injection += 1
        if S.busy or prop != 'C16':
            return None
        cad = args[0]
        return [(fr, np.array(fr.ts, copy=True), float(fr.t_start)) for fr in cad]

    def cad_post(args, kwargs, result, exc, token):
        S.in_cadence_injection -= 1
        if token is None or S.busy:
            return
        _cad_check(token, exc)

    @_guarded
    def _cad_check(token, exc):
        S.R.count('cadence_injections_observed')
        for fr, ts, t0 in token:
            S.R.check(np.array_equal(np.asarray(fr.ts), ts), 'suite:frame-ts-changed-by-cadence-injection' + (':on-raise' if exc else ''),
                      test=S.test)
            S.R.check(float(fr.t_start) == t0, 'suite:frame-t_start-changed-by-cadence-injection', test=S.test)
    attach.wrap(Cadence, 'add_signal', pre=cad_pre, post=cad_post)

    if prop == 'C05':
        from .props import c05

        def consolidated(args, kwargs, result, exc, token):
            if result is not None:
                try:
                    result._verif_consolidated = True           # a stitched time axis is not i*dt; judged by C16/C17 instead
                except Exception:  # noqa
                    pass
        attach.wrap(Cadence, 'consolidate', post=consolidated)

        @_guarded
        def cond(fr, name):
            S.R.count('axes_invariant_evals')
            prob = c05.axes_problem(fr)
            if prob and prob[0].startswith('ts-') and (S.in_cadence_injection or getattr(fr, '_verif_consolidated', False)):
                prob = None
            if prob:
                S.violate('suite:invariant:' + prob[0], after=name, **prob[1])
            else:
                S.R.check(True, 'suite:invariant')
        for n in ['__init__', 'add_noise', 'add_noise_from_obs', 'add_signal', 'add_constant_signal', 'zero_data', 'get_slice',
                  'add_metadata', 'get_index', 'get_frequency', 'copy', 'integrate', 'get_waterfall', 'save_fil', 'save_h5']:
            if n in vars(Frame):
                attach.wrap(Frame, n, post=(lambda args, kwargs, result, exc, token, _n=n:
                                            cond(args[0], _n) if exc is None and args and isinstance(args[0], Frame) else None))

    if prop in ('C06', 'C16'):
        def inj_pre(args, kwargs):
            if S.busy:
                return None
            fr = args[0]
            if fr.data.size > 4_000_000:
                return None
            return (np.array(fr.data, copy=True), np.array(fr.ts, copy=True), fr.noise_mean, fr.noise_std, tuple(fr.shape))

        @_guarded
        def inj_check(fr, result, exc, token):
            before, ts, nm, ns, shape = token
            S.R.count('injections_observed')
            S.R.check(np.array_equal(np.asarray(fr.ts), ts), 'suite:ts-changed-by-injection' + (':on-raise' if exc else ''), test=S.test)
            if prop == 'C16':
                return
            if exc is not None:
                S.R.check(np.array_equal(fr.data, before), 'suite:data-changed-by-failed-injection', test=S.test)
                return
            S.R.check(tuple(fr.shape) == shape and tuple(np.shape(result)) == shape, 'suite:shape-changed-by-injection', test=S.test)
            S.R.check(fr.noise_mean == nm and fr.noise_std == ns, 'suite:noise-bookkeeping-changed-by-injection', test=S.test)
            after = np.asarray(fr.data, dtype=np.float64)
            sig = np.asarray(result, dtype=np.float64)
            # the signal is observed as a difference of stored floats: one rounding of the sum, in the data's own dtype
            eps = np.finfo(fr.data.dtype).eps if np.issubdtype(fr.data.dtype, np.floating) else 0.0
            slack = 2 * eps * np.maximum(np.abs(before), np.abs(after)) + 1e-300
            bad = np.abs((after - before) - sig) > slack
            S.R.check(not bad.any(), 'suite:data-delta-differs-from-returned-signal', test=S.test, nbad=int(bad.sum()))
            S.R.count('pixels_compared', int(after.size))

        def inj_post(args, kwargs, result, exc, token):
            if token is not None and not S.busy:
                inj_check(args[0], result, exc, token)
        attach.wrap(Frame, 'add_signal', pre=inj_pre, post=inj_post)

    if prop == 'C03':
        from .props import c03

        @_guarded
        def saved(fr, path, fmt):
            if not os.path.exists(str(path)):
                return
            if fmt == 'h5' and not c03.h5_ok(fr):
                return
            c03.verify_file(stg, str(path), fmt, c03.snapshot(fr), S.R, 'suite')
        for n, fmt in (('save_fil', 'fil'), ('save_h5', 'h5')):
            attach.wrap(Frame, n, post=(lambda args, kwargs, result, exc, token, _f=fmt:
                                        saved(args[0], kwargs.get('filename', args[1] if len(args) > 1 else None), _f)
                                        if exc is None and not S.busy else None))

    if prop in ('C04', 'C20'):
        from .ref import guppi
        RVB = stg.voltage.RawVoltageBackend

        def rec_pre(args, kwargs):
            stem = kwargs.get('output_file_stem', args[1] if len(args) > 1 else None)
            return None if stem is None or S.busy else (str(stem), set(glob.glob(str(stem) + '.*.raw')))

        @_guarded
        def rec_check(rvb, kwargs, token):
            stem, _ = token
            files = sorted(glob.glob(stem + '.[0-9][0-9][0-9][0-9].raw'))
            S.R.count('recordings_observed')
            S.R.check(len(files) >= 1, 'suite:record-wrote-no-file', test=S.test)
            blocks = []
            for k, f in enumerate(files):
                S.R.check(f.endswith('.%04d.raw' % k), 'suite:file-sequence-gap', test=S.test, file=os.path.basename(f))
                try:
                    bl = guppi.parse_file(f)
                except guppi.GuppiError as e:
                    S.violate('suite:framing:' + e.args[0], file=os.path.basename(f), why=str(e.args[1:])[:200])
                    return
                S.R.check(len(bl) >= 1, 'suite:empty-file', test=S.test)
                blocks.append(bl)
            allb = [b for bl in blocks for b in bl]
            S.R.count('blocks_parsed', len(allb))
            bpf = int(getattr(rvb, 'blocks_per_file', 128))
            S.R.check(all(len(bl) == bpf for bl in blocks[:-1]) and len(blocks[-1]) <= bpf, 'suite:blocks-per-file', test=S.test,
                      got=[len(bl) for bl in blocks], want=bpf)
            if kwargs.get('num_blocks') is not None and kwargs.get('length_mode', 'obs_length') == 'num_blocks':
                S.R.check(len(allb) == int(kwargs['num_blocks']), 'suite:block-count', test=S.test, got=len(allb),
                          want=int(kwargs['num_blocks']))
            for b in allb:
                h = b['header']
                nb, npol, onc, bs = (int(guppi.parse_value(h[k])) for k in ('NBITS', 'NPOL', 'OBSNCHAN', 'BLOCSIZE'))
                ok = bs == len(b['data']) and (bs * 8) % (2 * (1 if npol == 1 else 2) * nb * onc) == 0
                S.R.check(ok, 'suite:blocsize-inconsistent', test=S.test, blocsize=bs, nbits=nb, npol=npol, obsnchan=onc)
            if prop == 'C20' and allb:
                h = allb[0]['header']
                S.R.check(int(guppi.parse_value(h['BLOCSIZE'])) == int(rvb.block_size), 'suite:header-BLOCSIZE-vs-backend', test=S.test)
                S.R.check(int(guppi.parse_value(h['OBSNCHAN'])) == int(rvb.num_chans) * int(rvb.num_antennas),
                          'suite:header-OBSNCHAN-vs-backend', test=S.test)
                pk = [int(guppi.parse_value(b['header']['PKTIDX'])) for b in allb if 'PKTIDX' in b['header']]
                if len(pk) >= 2:
                    d = np.diff(pk)
                    S.R.check(bool(np.all(d == d[0]) and d[0] > 0), 'suite:PKTIDX-not-arithmetic', test=S.test, first=pk[:4])

        def rec_post(args, kwargs, result, exc, token):
            if token is not None and exc is None and not S.busy:
                kw = dict(kwargs)
                names = ['output_file_stem', 'num_blocks', 'length_mode']
                for k, v in zip(names, args[1:]):
                    kw.setdefault(k, v)
                rec_check(args[0], kw, token)
        attach.wrap(RVB, 'record', pre=rec_pre, post=rec_post)

    if prop == 'C09':
        v = stg.voltage

        @_guarded
        def q_check(q, out, cx):
            S.R.count('quantiser_calls_observed')
            nb = int(q.num_bits)
            lo, hi = -2 ** (nb - 1), 2 ** (nb - 1) - 1
            o = np.asarray(out.get() if hasattr(out, 'get') else out)
            parts = [o.real, o.imag] if np.iscomplexobj(o) else [o]
            for p in parts:
                S.R.check(bool(np.all(p == np.rint(p))), 'suite:quantised-value-not-integer', test=S.test)
                S.R.check(bool(p.size == 0 or (p.min() >= lo and p.max() <= hi)), 'suite:quantised-value-out-of-range', test=S.test,
                          bits=nb, lo=float(p.min()) if p.size else 0, hi=float(p.max()) if p.size else 0)
        for cls, cx in ((v.RealQuantizer, False), (v.ComplexQuantizer, True)):
            attach.wrap(cls, 'quantize', post=(lambda args, kwargs, result, exc, token, _c=cx:
                                               q_check(args[0], result, _c) if exc is None and not S.busy else None))

    if prop == 'C10':
        v = stg.voltage
        DS = v.DataStream

        def ds_pre(args, kwargs):
            if S.busy:
                return None
            st = args[0]
            return (float(st.t_start), float(st.sample_rate))

        @_guarded
        def ds_check(st, n, out, token):
            t0, fs_ = token
            S.R.count('stream_requests_observed')
            S.R.check(np.ndim(out) == 1 and len(out) == int(n), 'suite:stream-request-length', test=S.test, got=int(np.shape(out)[0]), want=int(n))
            t1 = float(st.t_start)
            tol = 4 * np.spacing(max(abs(t0), abs(t1), int(n) / fs_))
            S.R.check(abs(t1 - (t0 + int(n) / fs_)) <= tol, 'suite:stream-clock-advance', test=S.test, got=t1 - t0, want=int(n) / fs_)
        attach.wrap(DS, 'get_samples', pre=ds_pre,
                    post=(lambda args, kwargs, result, exc, token:
                          ds_check(args[0], kwargs.get('num_samples', args[1] if len(args) > 1 else 0), result, token)
                          if exc is None and token is not None and not S.busy else None))

        @_guarded
        def ant_check(ant, n, out):
            S.R.count('antenna_requests_observed')
            o = np.asarray(out.get() if hasattr(out, 'get') else out)
            S.R.check(o.shape == (1, int(ant.num_pols), int(n)), 'suite:antenna-request-shape', test=S.test, shape=list(o.shape))
            for st in ant.streams:
                S.R.check(float(st.t_start) == float(ant.t_start), 'suite:antenna-clock-differs-from-stream', test=S.test,
                          antenna=float(ant.t_start), stream=float(st.t_start))
        attach.wrap(v.Antenna, 'get_samples',
                    post=(lambda args, kwargs, result, exc, token:
                          ant_check(args[0], kwargs.get('num_samples', args[1] if len(args) > 1 else 0), result)
                          if exc is None and not S.busy else None))

    if prop == 'C17':
        def sl_pre(args, kwargs):
            if S.busy:
                return None
            fr = args[0]
            return (np.array(fr.data, copy=True), np.array(fr.fs, copy=True), np.array(fr.ts, copy=True), float(fr.t_start), fr.source_name)

        @_guarded
        def sl_check(fr, l, r, child, token):
            data, fs_, ts_, t0, name = token
            S.R.count('slices_observed')
            l, r = int(l), int(r)
            S.R.check(np.array_equal(child.data, data[:, l:r]), 'suite:slice-data', test=S.test)
            want = fs_[l:r]
            ok = np.shape(child.fs) == want.shape and (want.size == 0 or float(np.max(np.abs(child.fs - want))) <= 8 * np.spacing(float(np.max(np.abs(fs_)))))
            S.R.check(bool(ok), 'suite:slice-frequency-axis', test=S.test, l=l, r=r)
            S.R.check(np.array_equal(child.ts, ts_) and float(child.t_start) == t0, 'suite:slice-time-axis-or-start', test=S.test)
            S.R.check(bool(child.ascending) == bool(fr.ascending) and child.df == fr.df and child.dt == fr.dt, 'suite:slice-resolution-or-orientation',
                      test=S.test)
            S.R.check(np.array_equal(fr.data, data) and np.array_equal(fr.fs, fs_), 'suite:slice-changed-parent', test=S.test)
            S.R.check(not np.shares_memory(child.data, fr.data), 'suite:slice-is-view-of-parent', test=S.test)
        attach.wrap(Frame, 'get_slice', pre=sl_pre,
                    post=(lambda args, kwargs, result, exc, token:
                          sl_check(args[0], kwargs.get('l', args[1] if len(args) > 1 else 0), kwargs.get('r', args[2] if len(args) > 2 else 0),
                                   result, token) if exc is None and token is not None and not S.busy else None))

    if prop == 'C18':
        @_guarded
        def cad_inv(cad, name):
            S.R.count('cadence_invariant_evals')
            frames = list(cad)
            ok = all(isinstance(f, Frame) for f in frames)
            S.R.check(ok, 'suite:cadence-holds-non-frame', after=name, test=S.test)
            if ok and frames:
                f0 = frames[0]
                for f in frames[1:]:
                    same = (f.df == f0.df and f.dt == f0.dt and f.fchans == f0.fchans and
                            abs(f.fmin - f0.fmin) <= 1e-6 * f0.df)
                    S.R.check(same, 'suite:cadence-holds-incompatible-frames', after=name, test=S.test)
            if isinstance(cad, stg.OrderedCadence):
                S.R.check(all(f.metadata.get('order_label') is not None for f in frames), 'suite:ordered-frame-without-label',
                          after=name, test=S.test)
        for cls in (Cadence, stg.OrderedCadence):
            for n in ['__init__', 'append', 'insert', 'extend', '__setitem__', '__delitem__', '__iadd__', 'set_order']:
                if n in vars(cls):
                    attach.wrap(cls, n, post=(lambda args, kwargs, result, exc, token, _n=n:
                                              cad_inv(args[0], _n) if args and not S.busy else None))


# ------------------------------------------------------------------------------------------------ pytest hooks

def pytest_configure(config):
    global S
    prop = os.environ.get('SUITEMON_PROP')
    if not prop:
        return
    S = _State()
    _install(prop)


def pytest_runtest_setup(item):
    if S is not None:
        S.test = item.nodeid.split('/')[-1]


def pytest_runtest_logreport(report):
    if S is None:
        return
    if report.when == 'call':
        if report.passed:
            S.passed += 1
        elif report.failed:
            S.failed += 1
            S.R.counters.setdefault('first_failed_test', report.nodeid + ': ' + str(report.longrepr)[-400:])
    elif report.skipped:
        S.skipped += 1
    elif report.failed:
        S.failed += 1


def pytest_sessionfinish(session, exitstatus):
    if S is None:
        return
    out = S.R.result()
    out.update(tests_passed=S.passed, tests_failed=S.failed, tests_skipped=S.skipped)
    with open(os.environ['SUITEMON_OUT'], 'w') as f:
        json.dump(out, f)


# ------------------------------------------------------------------------------------------------ worker side

def run(prop, R):
    """Case of kind 'suite': the repository's tests under prop's passive monitors, in a fresh interpreter."""
    from . import common
    repo = os.environ.get('VERIF_REPO', '/repo')
    work = os.path.join(os.environ['VERIF_TMP'], 'suite_%s_%d' % (prop, os.getpid()))
    shutil.copytree(os.path.join(repo, 'tests'), os.path.join(work, 'tests'))
    out = os.path.join(work, 'suitemon.json')
    env = dict(os.environ, SUITEMON_PROP=prop, SUITEMON_OUT=out, PYTHONPATH=repo + os.pathsep + os.path.dirname(os.path.dirname(__file__)),
               MPLBACKEND='Agg', PYTHONDONTWRITEBYTECODE='1')
    R.bucket('suite-under-monitors')
    try:
        p = subprocess.run([sys.executable, '-B', '-m', 'pytest', '-q', '--no-header', '-p', 'no:cacheprovider', '-p', 'vlib.suitemon',
                            '--rootdir', work, 'tests'], cwd=work, env=env, capture_output=True, text=True, timeout=1500)
    except subprocess.TimeoutExpired:
        R.inconclusive = 'suite run exceeded its watchdog'
        shutil.rmtree(work, ignore_errors=True)
        return
    if not os.path.exists(out):
        R.inconclusive = 'suite run left no monitor report: ' + (p.stdout[-300:] + p.stderr[-300:])
        shutil.rmtree(work, ignore_errors=True)
        return
    res = json.load(open(out))
    shutil.rmtree(work, ignore_errors=True)
    R.count('suite_tests_passed', res['tests_passed'])
    R.count('suite_tests_failed', res['tests_failed'])
    R.count('suite_monitor_checks', res['checks'])
    for k, v in res['counters'].items():
        if isinstance(v, (int, float)):
            R.count('suite_' + k, v)
    if res['counters'].get('monitor_errors'):
        R.inconclusive = 'monitor error inside the suite run: ' + str(res['counters'].get('monitor_error_first'))
        return
    if res['tests_failed']:
        # a test failing under passive monitors: either the tree under test fails its own suite (outside this task's premise)
        # or a monitor disturbed the test -- neither is a verdict on the property
        R.inconclusive = 'repository test failed under monitors: ' + str(res['counters'].get('first_failed_test'))[:400]
        return
    R.checks += res['checks']
    for v in res['violations']:
        R.violations.append(v)
    if res['checks'] == 0:
        R.inconclusive = 'suite run reached no monitor'
    R.mark_nontrivial(res['checks'] > 0)
