"""Recording workloads shared by C02 / C04 / C07 / C14 / C20: configuration generator, builder,
boundary recording around RawVoltageBackend.record, and the reference pipeline R-PIPE."""
import os
import glob
import numpy as np
from . import common
from .ref import guppi, pfb as rpfb, quant as rquant

FW = 2 * np.sqrt(2 * np.log(2))


def gen_config(rng, tier, i=0, **fix):
    """Random admissible backend configuration (tiny sizes: defects are index/residue errors, not size effects)."""
    P = int(common.pick(rng, [8, 16, 32, 64, 15, 25] + ([128] if tier == 'thorough' else [])))     # odd branch counts are admitted too
    M = int(rng.integers(2, 9))
    nchan = int(rng.integers(1, P // 2 + 1)) if rng.random() < 0.7 else int(common.pick(rng, [1, 2, P // 2]))
    nchan = min(nchan, 12)
    start_chan = int(rng.integers(0, P // 2 - nchan + 1))
    npol = 1 + common.stratum(i, 101, 2)
    bits = 8 if common.stratum(i, 102, 3) else 4
    nants = 1 if common.stratum(i, 103, 3) else int(rng.integers(2, 4))
    mult = int(rng.integers(1, 13))
    nblocks = int(rng.integers(1, 8))
    cfg = dict(sample_rate=float(common.pick(rng, [3e9, 2.4e9, 1.7e8, 1e6, 48000.0])),
               fch1=float(common.pick(rng, [0.0, 1e9, 6e9, 8.4213e9])), asc=bool(common.stratum(i, 104, 2)),
               npol=npol, nants=nants, delays=[int(x) for x in rng.integers(0, 7, size=nants)] if nants > 1 else None,
               M=M, P=P, window=str(common.pick(rng, ['hamming', 'hann', 'blackman', 'boxcar'])),
               start_chan=start_chan, nchan=nchan, bits=bits, mult=mult, nblocks=nblocks,
               bpf=int(rng.integers(1, 5)), nsub=int(rng.integers(1, mult + 3)),
               digitize=bool(rng.random() < 0.75), dig_bits=int(common.pick(rng, [8, 8, 4, 6])),
               dig_fwhm=float(common.pick(rng, [32.0, 20.0, 8.0])), rq_fwhm=float(common.pick(rng, [32.0, 16.0, 6.0])),
               period_dig=int(common.pick(rng, [1, 1, -1, 2, 3])), period_rq=int(common.pick(rng, [1, 1, -1, 2, 3])),
               N_dig=int(common.pick(rng, [10000, 64, 1000])), N_rq=int(common.pick(rng, [10000, 3, 50])),
               noise_std=float(common.pick(rng, [1.0, 0.3, 5.0])), bg_noise_std=float(common.pick(rng, [0.0, 0.7])),
               noise_std2=float(common.pick(rng, [0.0, 0.0, 0.0, 0.6])),     # a second, independent noise source on every stream
               tones=[dict(chan=float(rng.uniform(start_chan - 0.3, start_chan + nchan - 0.7)), level=float(rng.uniform(0.05, 0.5)),
                           drift=0.0) for _ in range(int(rng.integers(0, 3)))],
               seed=int(rng.integers(2 ** 31)))
    if common.stratum(i, 105, 6) == 0:
        # a digitiser wider than one byte (valid: RealQuantizer documents any num_bits) whose values leave -128..127
        cfg['dig_bits'] = int(common.pick(rng, [12, 16, 10]))
        cfg['dig_fwhm'] = float(common.pick(rng, [900.0, 300.0, 32.0]))
    # voltages far from order one: a receiver whose units make everything tiny, or a large DC level under unit noise
    vs = common.stratum(i, 106, 8)
    if vs == 3:
        cfg['vscale'] = 1e-10
    elif vs == 5:
        cfg['dc'] = 1e7
    cfg.update(fix)
    return cfg


def sizes(cfg):
    bps = 2 * cfg['npol'] * cfg['bits'] // 8
    spb = cfg['M'] * cfg['mult']
    block_size = cfg['nants'] * cfg['nchan'] * spb * bps
    return dict(bytes_per_sample=bps, spb=spb, block_size=block_size)


def build(stg, cfg):
    """-> (backend, antenna_source). Everything seeded."""
    v = stg.voltage
    kw = dict(sample_rate=cfg['sample_rate'], fch1=cfg['fch1'], ascending=cfg['asc'], num_pols=cfg['npol'], seed=cfg['seed'])
    if cfg['nants'] == 1:
        src = v.Antenna(**kw)
        ants = [src]
    else:
        src = v.MultiAntennaArray(num_antennas=cfg['nants'], delays=cfg['delays'], **kw)
        ants = src.antennas
        if cfg['bg_noise_std'] > 0:
            for s in src.bg_streams:
                s.add_noise(0.0, cfg['bg_noise_std'] * cfg.get('vscale', 1.0))
    chan_bw = cfg['sample_rate'] / cfg['P'] * (1 if cfg['asc'] else -1)
    for a in ants:
        for s in a.streams:
            vsc = cfg.get('vscale', 1.0)
            s.add_noise(cfg.get('dc', 0.0), cfg['noise_std'] * vsc)
            if cfg.get('noise_std2', 0.0) > 0:
                s.add_noise(0.1 * vsc, cfg['noise_std2'] * vsc)
            for t in cfg['tones']:
                f = cfg['fch1'] + t['chan'] * chan_bw
                s.add_constant_signal(f_start=f, drift_rate=t['drift'], level=t['level'] * vsc)
    dig = v.RealQuantizer(target_fwhm=cfg['dig_fwhm'], num_bits=cfg['dig_bits'], stats_calc_period=cfg['period_dig'],
                          stats_calc_num_samples=cfg['N_dig'])
    fb = v.PolyphaseFilterbank(num_taps=cfg['M'], num_branches=cfg['P'], window_fn=cfg['window'])
    rq = v.ComplexQuantizer(target_fwhm=cfg['rq_fwhm'], num_bits=cfg['bits'], stats_calc_period=cfg['period_rq'],
                            stats_calc_num_samples=cfg['N_rq'])
    sz = sizes(cfg)
    rvb = v.RawVoltageBackend(src, digitizer=dig, filterbank=fb, requantizer=rq, start_chan=cfg['start_chan'],
                              num_chans=cfg['nchan'], block_size=sz['block_size'], blocks_per_file=cfg['bpf'],
                              num_subblocks=cfg['nsub'])
    return rvb, src


class Boundary:
    """Boundary recording: what the antenna source delivered (sizes + copies)."""

    def __init__(self, src):
        self.src = src
        self.log = []
        self._orig = src.get_samples

        def rec(n):
            out = self._orig(n)
            self.log.append((int(n), np.array(out, copy=True)))
            return out
        src.get_samples = rec

    def detach(self):
        try:
            del self.src.get_samples
        except AttributeError:
            pass


def do_record(stg, cfg, stem, rvb=None, src=None, header_dict=None, load_template=False, **kw):
    """Record cfg['nblocks'] blocks to <stem>.NNNN.raw with boundary recording. Returns dict."""
    if rvb is None:
        rvb, src = build(stg, cfg)
    bd = Boundary(src)
    args = dict(num_blocks=cfg['nblocks'], length_mode='num_blocks', digitize=cfg['digitize'],
                load_template=load_template, verbose=False)
    # always an explicit fresh dictionary: the shared default argument of record() is C12's business
    args['header_dict'] = header_dict if header_dict is not None else {}
    args.update(kw)
    try:
        with common.quiet():
            rvb.record(stem, **args)
    finally:
        bd.detach()
    files = sorted(glob.glob(stem + '.????.raw'))
    return dict(rvb=rvb, src=src, delivered=bd.log, files=files)


def expected_blocks(cfg, delivered, window, fix_digitised=None):
    """R-PIPE: expected decoded content of every block, from the samples the antenna actually delivered.

    -> (blocks: complex array (nblocks, nants*nchan, spb, npol), ties: bool array same shape, info)"""
    sz = sizes(cfg)
    M, P, nchan, sc = cfg['M'], cfg['P'], cfg['nchan'], cfg['start_chan']
    spb, nb = sz['spb'], cfg['nblocks']
    out = np.zeros((nb, cfg['nants'] * nchan, spb, cfg['npol']), dtype=complex)
    ties = np.zeros(out.shape, dtype=bool)
    info = dict(dig_ties=0, calls=len(delivered))
    call_sizes = [n for n, _ in delivered]
    rows_per_call = [call_sizes[0] // P - M] + [n // P for n in call_sizes[1:]]
    for a in range(cfg['nants']):
        for p in range(cfg['npol']):
            if cfg['digitize']:
                dq = rquant.QuantRef(0, cfg['dig_fwhm'] / FW, cfg['dig_bits'], cfg['period_dig'], cfg['N_dig'])
                parts = []
                for n, arr in delivered:
                    q, pre = dq.quantize(arr[a][p])
                    info['dig_ties'] += int(rquant.tie_mask(pre, cfg['dig_bits']).sum())
                    parts.append(q.astype(float))
                stream = np.concatenate(parts)
            else:
                stream = np.concatenate([np.asarray(arr[a][p]) for _, arr in delivered])
            X = rpfb.ref_pfb(stream, window, M, P)[:, sc:sc + nchan]
            qr = rquant.QuantRef(0, cfg['rq_fwhm'] / FW, cfg['bits'], cfg['period_rq'], cfg['N_rq'])
            qi = rquant.QuantRef(0, cfg['rq_fwhm'] / FW, cfg['bits'], cfg['period_rq'], cfg['N_rq'])
            row = 0
            seq = np.zeros((nb * spb, nchan), dtype=complex)
            tie = np.zeros((nb * spb, nchan), dtype=bool)
            for rows in rows_per_call:
                v = X[row:row + rows]
                r_, pr = qr.quantize(np.real(v))
                i_, pi = qi.quantize(np.imag(v))
                seq[row:row + rows] = r_ + 1j * i_
                tie[row:row + rows] = rquant.tie_mask(pr, cfg['bits']) | rquant.tie_mask(pi, cfg['bits'])
                row += rows
            info['rows'] = row
            for b in range(nb):
                out[b, a * nchan:(a + 1) * nchan, :, p] = seq[b * spb:(b + 1) * spb].T
                ties[b, a * nchan:(a + 1) * nchan, :, p] = tie[b * spb:(b + 1) * spb].T
    return out, ties, info


def read_blocks(files):
    """Parse all files with R-GUPPI -> list of parsed blocks in file order."""
    blocks = []
    for f in files:
        blocks.extend(guppi.parse_file(f))
    return blocks
