"""R-PFB for C08 -- polyphase filterbank from its FIR+DFT definition, with rounding bounds (DESIGN.md 3.1).

    X[n, k] = P^-1/2 * sum_{p<P} exp(-2 pi i k p / P) * sum_{m<M} h[m P + p] * x[(n + m) P + p]

Written from the property text: spectrum n is the DFT over the branch index p of the
window-weighted sum of M consecutive length-P segments starting at sample n*P.  The DFT
is an explicit matrix product (no numpy.fft); the twiddle angles are reduced with integer
arithmetic (k p mod P) so that they carry a few ulp of error irrespective of P.  Complex
input is evaluated by linearity (real part, imaginary part separately).

Besides the value the functions return the absolute mass S[n] = sum_{m,p} |h||x| of every
spectrum; the rounding bound of any reasonable float64 evaluation is a small multiple of
eps * S / sqrt(P) (see bound()).  (vlib/ref/pfb.py is the plain whole-stream variant used by
the recording pipeline reference; this module adds spectrum ranges, masses, bounds, the literal
double loop and the window design.)
"""
import math
import numpy as np
from numpy.lib.stride_tricks import sliding_window_view

EPS = float(np.finfo(np.float64).eps)

_DFT = {}


def dft_matrix(P, K):
    """E[p, k] = exp(-2 pi i k p / P), p < P, k < K (memoised, a handful of sizes per worker)."""
    if (P, K) not in _DFT:
        if len(_DFT) > 6:
            _DFT.clear()
        p = np.arange(P, dtype=np.int64)[:, None]
        k = np.arange(K, dtype=np.int64)[None, :]
        r = (p * k) % P
        ang = (2.0 * math.pi / P) * r.astype(np.float64)
        _DFT[(P, K)] = np.cos(ang) - 1j * np.sin(ang)
    return _DFT[(P, K)]


def _fir_real(x, hmp, M, P, n0, n1):
    """y[n, p] = sum_m h[m P + p] x[(n + m) P + p] for n0 <= n < n1 (x real float64)."""
    seg = x[n0 * P:(n1 - 1 + M) * P].reshape(n1 - n0 + M - 1, P)      # segment j holds samples (n0 + j) P ...
    win = sliding_window_view(seg, M, axis=0)                           # [n, p, m] = seg[n + m, p]
    return np.einsum('npm,mp->np', win, hmp)


def max_spectra(length, M, P):
    """Number of spectra the definition can produce from `length` samples."""
    return max(0, length // P - M + 1)


def channelise(x, h, M, P, n0=0, n1=None, K=None):
    """Definition spectra n0 <= n < n1 (default: all that fit), channels k < K (default: k < P/2).

    Returns (X, S): X complex128 (n1 - n0, K); S float64 (n1 - n0,) absolute mass per spectrum.
    """
    x = np.asarray(x)
    h = np.asarray(h, dtype=np.float64)
    if h.shape != (M * P,):
        raise ValueError('window must have M*P coefficients')
    if K is None:
        K = (P + 1) // 2
    nmax = max_spectra(len(x), M, P)
    if n1 is None:
        n1 = nmax
    if not (0 <= n0 <= n1 <= nmax):
        raise ValueError(f'spectra {n0}..{n1} not computable from {len(x)} samples (max {nmax})')
    if n1 == n0:
        return np.zeros((0, K), dtype=np.complex128), np.zeros(0)
    hmp = h.reshape(M, P)                    # h[m P + p] -> [m, p]
    E = dft_matrix(P, K)
    if np.iscomplexobj(x):
        xr = np.ascontiguousarray(x.real, dtype=np.float64)
        xi = np.ascontiguousarray(x.imag, dtype=np.float64)
        X = (_fir_real(xr, hmp, M, P, n0, n1) @ E) + 1j * (_fir_real(xi, hmp, M, P, n0, n1) @ E)
        ax = np.abs(xr) + np.abs(xi)
    else:
        xr = np.ascontiguousarray(x, dtype=np.float64)
        X = _fir_real(xr, hmp, M, P, n0, n1) @ E
        ax = np.abs(xr)
    S = _fir_real(ax, np.abs(hmp), M, P, n0, n1).sum(axis=1)
    return X / math.sqrt(P), S


def mass(x, h, M, P, n0=0, n1=None):
    """S[n] = sum_{m,p} |h[m P + p]| |x[(n + m) P + p]| (|x| = |re| + |im| for complex x)."""
    x = np.asarray(x)
    if n1 is None:
        n1 = max_spectra(len(x), M, P)
    if n1 <= n0:
        return np.zeros(0)
    ax = (np.abs(x.real) + np.abs(x.imag)) if np.iscomplexobj(x) else np.abs(x)
    ax = np.ascontiguousarray(ax, dtype=np.float64)
    return _fir_real(ax, np.abs(np.asarray(h, dtype=np.float64)).reshape(M, P), M, P, n0, n1).sum(axis=1)


def bound(S, M, P, factor=4.0):
    """First-order rounding bound on |X_code - X_ref| for spectra of absolute mass S.

    code under test: products (1 rounding), M-term sum (M-1), FFT (normwise ~ log2 P eps ||y||_2 <= ... sum|y|),
    scaling (2); reference: products, M-term sum, P-term matrix sum with twiddles accurate to ~4 ulp, scaling.
    Everything is bounded by (terms) * eps * S / sqrt(P); `factor` is the safety margin, the margin actually
    used is reported by the monitors (largest error/bound).
    """
    terms = 2 * M + P + 8 * max(1.0, math.log2(P)) + 8
    return factor * terms * EPS * np.asarray(S, dtype=np.float64) / math.sqrt(P)


def literal(x, h, M, P, n, k):
    """The definition as a literal double loop (used to validate channelise on small sizes)."""
    acc = 0j
    for p in range(P):
        s = 0j
        for m in range(M):
            s += float(h[m * P + p]) * complex(x[(n + m) * P + p])
        ang = -2.0 * math.pi * ((k * p) % P) / P
        acc += complex(math.cos(ang), math.sin(ang)) * s
    return acc / math.sqrt(P)


def lowpass_window(M, P, window_fn):
    """Windowed-sinc low-pass prototype of the filterbank: M*P coefficients, cut-off at 1/P of Nyquist
    (= half a channel spacing of the P-point DFT), weighted by the named window (symmetric form),
    normalised to unit DC gain and scaled by M*P (so that the coefficients sum to M*P)."""
    import scipy.signal
    N = M * P
    m = np.arange(N, dtype=np.float64) - (N - 1) / 2.0
    c = 1.0 / P
    w = scipy.signal.get_window(window_fn, N, fftbins=False)
    hh = c * np.sinc(c * m) * w
    return hh / hh.sum() * N
