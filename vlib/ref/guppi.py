"""R-GUPPI: independent GUPPI RAW framing parser / decoder / writer, written from the
format description (80-byte cards until END; DIRECTIO != 0 => header zero-padded to the
next multiple of 512 bytes, none if already aligned; then BLOCSIZE data bytes; data are
channel-major, then time, then polarisation, then (re, im); 8-bit int8 pairs or 4-bit
two's-complement nibbles, real high / imaginary low)."""
import numpy as np


class GuppiError(Exception):
    def __init__(self, key, msg):
        super().__init__(f'{key}: {msg}')
        self.key = key


def parse_value(raw):
    """Card value -> python value (strings: quotes and padding stripped; numbers by value)."""
    v = raw.strip()
    if v.startswith("'"):
        end = v.rfind("'")
        return v[1:end].strip() if end > 0 else v[1:].strip()
    try:
        return int(v)
    except ValueError:
        pass
    try:
        return float(v)
    except ValueError:
        return v


def directio_of(hdr):
    v = hdr.get('DIRECTIO')
    if v is None:
        return 0
    v = parse_value(v)
    try:
        return int(v)
    except (TypeError, ValueError):
        try:
            return int(str(v).strip("' "))
        except ValueError:
            return 0


def parse_bytes(b, max_blocks=10 ** 6):
    """-> list of dict(header={key: raw value string}, cards=n, header_bytes=..., pad=..., data=bytes, offset=...)."""
    pos, out = 0, []
    while pos < len(b):
        if len(out) >= max_blocks:
            raise GuppiError('too-many-blocks', 'runaway')
        start = pos
        hdr, ncards = {}, 0
        while True:
            card = b[pos:pos + 80]
            if len(card) < 80:
                raise GuppiError('truncated-header', f'card at {pos} has {len(card)} bytes')
            pos += 80
            ncards += 1
            try:
                txt = card.decode('ascii')
            except UnicodeDecodeError:
                raise GuppiError('non-ascii-card', f'at {pos - 80}')
            if txt[:3] == 'END' and txt[3:].strip() == '':
                break
            if txt[8] != '=':
                raise GuppiError('malformed-card', repr(txt[:30]))
            hdr[txt[:8].strip()] = txt[9:].strip()
            if ncards > 4096:
                raise GuppiError('no-END-card', 'header too long')
        hlen = pos - start
        pad = 0
        if directio_of(hdr) != 0:
            pad = (-hlen) % 512
            padding = b[pos:pos + pad]
            if len(padding) < pad:
                raise GuppiError('truncated-padding', f'{len(padding)} < {pad}')
            if any(padding):
                raise GuppiError('nonzero-padding', f'at {pos}')
            pos += pad
        if 'BLOCSIZE' not in hdr:
            raise GuppiError('no-BLOCSIZE', '')
        n = int(parse_value(hdr['BLOCSIZE']))
        data = b[pos:pos + n]
        if len(data) != n:
            raise GuppiError('truncated-data', f'{len(data)} != BLOCSIZE {n} (block {len(out)})')
        out.append(dict(header=hdr, cards=ncards, header_bytes=hlen, pad=pad, data=data, offset=start))
        pos += n
    return out


def parse_file(path):
    with open(path, 'rb') as f:
        return parse_bytes(f.read())


def decode_block(data, obsnchan, npol, nbits):
    """-> complex array (obsnchan, time, npol)."""
    raw = np.frombuffer(data, dtype=np.int8).reshape(obsnchan, -1)
    if nbits == 8:
        x = raw.reshape(obsnchan, -1, npol, 2).astype(np.int64)
        return x[..., 0] + 1j * x[..., 1]
    if nbits == 4:
        u = raw.view(np.uint8).reshape(obsnchan, -1, npol)
        hi = (u >> 4).astype(np.int64)
        lo = (u & 15).astype(np.int64)
        hi[hi >= 8] -= 16
        lo[lo >= 8] -= 16
        return hi + 1j * lo
    raise GuppiError('unsupported-nbits', str(nbits))


def encode_block(x, nbits):
    """complex integer array (obsnchan, time, npol) -> bytes."""
    re = np.real(x).astype(np.int64)
    im = np.imag(x).astype(np.int64)
    if nbits == 8:
        out = np.empty(x.shape + (2,), dtype=np.int8)
        out[..., 0] = re
        out[..., 1] = im
        return out.tobytes()
    if nbits == 4:
        b = ((re & 15) << 4) | (im & 15)
        return b.astype(np.uint8).tobytes()
    raise GuppiError('unsupported-nbits', str(nbits))


def format_card(key, value):
    if isinstance(value, str):
        v = "'%-8s'" % value
        return ('%-8s= %-20s' % (key, v)).ljust(80)
    if isinstance(value, float):
        return ('%-8s= %20s' % (key, repr(value))).ljust(80)
    return ('%-8s= %20s' % (key, value)).ljust(80)


def write_file(path, blocks):
    """blocks: list of (ordered header dict with python values, data bytes). Independent writer (used for C14 inputs)."""
    with open(path, 'wb') as f:
        for hdr, data in blocks:
            cards = [format_card(k, v) for k, v in hdr.items()] + ['END'.ljust(80)]
            h = ''.join(cards).encode('ascii')
            assert len(h) % 80 == 0
            f.write(h)
            d = hdr.get('DIRECTIO', 0)
            if int(d) != 0:
                f.write(bytes((-len(h)) % 512))
            assert len(data) == int(hdr['BLOCSIZE'])
            f.write(data)
