"""R-SIG: independent pixel evaluator for injected signals, with a first-order
interval bound accumulated term by term (DESIGN.md 3.1 / 3.2).

A *signal spec* is plain JSON:
  path:  {'kind': 'constant'|'squared'|'sine'|'rfi'|'custom_scalar', params..., 'form': 'callable'|'array'|'list'|'scalar'}
  tprof: {'kind': 'constant'|'sine'|'pgauss'|'custom_scalar'|'custom_poly', params..., 'form': ...}
  fprof: {'kind': 'box'|'gaussian'|'multi'|'lorentzian'|'voigt'|'sinc2', params...}
  bp:    {'kind': 'none'|'scalar'|'constant'|'cos'|'array', ...}
build_lib(stg, spec) gives the objects handed to the library; the reference side is
written here from the documented closed forms. Random families are mirrored by a
same-seed twin of the library object (called exactly as often, on the reference grid).
"""
import numpy as np
from scipy.special import wofz

FW = 2 * np.sqrt(2 * np.log(2))


# ------------------------------------------------------------------ closed forms (reference side)

def ref_path_fn(p):
    k = p['kind']
    if k == 'constant':
        return lambda t: p['f_start'] + p['drift'] * t
    if k == 'squared':
        return lambda t: p['f_start'] + 0.5 * p['drift'] * t * t
    if k == 'sine':
        return lambda t: p['f_start'] + p['amplitude'] * np.sin(2 * np.pi * t / p['period']) + p['drift'] * t
    if k == 'custom_scalar':
        return lambda t: p['f_start'] + 0.0 * np.asarray(t, dtype=float)
    raise ValueError(k)


def ref_tprof_fn(p):
    k = p['kind']
    if k == 'constant':
        return lambda t: np.full(np.shape(t), float(p['level']))
    if k == 'sine':
        return lambda t: p['amplitude'] * np.sin(2 * np.pi * (t + p['phase']) / p['period']) + p['level']
    if k == 'custom_scalar':
        return lambda t: np.full(np.shape(t), float(p['level']))
    if k == 'custom_poly':
        return lambda t: p['level'] * (1.0 + p['slope'] * t)
    if k == 'pgauss' and p.get('offset_width', 0) == 0 and p['direction'] in ('up', 'down'):
        sign = 1.0 if p['direction'] == 'up' else -1.0
        sigma = p['pulse_width'] / FW
        pnum = p['pnum']

        def f(t):
            t = np.asarray(t, dtype=float)
            k0 = np.round((t + p['phase']) / p['period'] - 0.25)
            half = pnum // 2
            offs = range(-half, half + 1) if pnum % 2 == 1 else range(-half + 1, half + 1)
            tot = np.zeros(t.shape)
            for i in offs:
                c = (4.0 * (k0 + i) + 1.0) / 4.0 * p['period'] - p['phase']
                tot = tot + sign * p['amplitude'] * np.exp(-(t - c) ** 2 / (2 * sigma ** 2))
            return np.maximum(p['min_level'], tot + p['level'])
        return f
    return None


def ref_fprof_fn(p):
    k = p['kind']
    if k == 'box':
        w = p['width']
        return lambda f, c: (np.abs(f - c) < w / 2).astype(float)
    if k == 'gaussian':
        s = p['width'] / FW
        return lambda f, c: np.exp(-(f - c) ** 2 / (2 * s * s))
    if k == 'multi':
        s = p['width'] / FW
        g = lambda f, c: np.exp(-(f - c) ** 2 / (2 * s * s))  # noqa: E731
        return lambda f, c: g(f, c - 100) / 4 + g(f, c) + g(f, c + 100) / 4
    if k == 'lorentzian':
        gam = p['width'] / 2
        return lambda f, c: 1.0 / (1.0 + ((f - c) / gam) ** 2)
    if k == 'voigt':
        s = p['g_width'] / FW
        gam = p['l_width'] / 2
        if s == 0:            # the limits of the convolution: a pure Lorentzian / a pure Gaussian, both of unit peak
            return lambda f, c: 1.0 / (1.0 + ((f - c) / gam) ** 2)
        if gam == 0:
            return lambda f, c: np.exp(-(f - c) ** 2 / (2 * s * s))
        v0 = np.real(wofz((1j * gam) / s / np.sqrt(2)))
        return lambda f, c: np.real(wofz(((f - c) + 1j * gam) / s / np.sqrt(2))) / v0
    if k == 'sinc2':
        zc = (p['width'] / 2) / 0.442946470689452 if p.get('mode', 'crossing') == 'fwhm' else p['width'] / 2
        if p.get('trunc', True):
            return lambda f, c: np.where(np.abs(f - c) < zc, np.sinc((f - c) / zc), 0.0) ** 2
        return lambda f, c: np.sinc((f - c) / zc) ** 2
    if k == 'custom_abs':
        return custom_abs_profile(p)
    raise ValueError(k)


def custom_abs_profile(p):
    """A user-written f_profile(f, f_center): gaussian line whose width grows with the centre's offset from a reference
    frequency, times a comb fixed in ABSOLUTE frequency. It depends on f and f_center individually (not only on f - f_center)."""
    s0, q, f0, g = p['width'] / FW, p['comb'], p['f_ref'], p['growth']

    def prof(f, c):
        s = s0 * (1.0 + g * np.abs(c - f0) / q)
        return np.exp(-(f - c) ** 2 / (2 * s * s)) * (1.0 + 0.5 * np.cos(2 * np.pi * (f - f0) / q))
    return prof


def ref_bp_fn(p, fmid, span):
    k = p['kind']
    if k == 'none':
        return lambda f: np.ones(np.shape(f))
    if k in ('scalar', 'constant'):
        return lambda f: np.full(np.shape(f), float(p['level']))
    if k in ('cos', 'array'):
        return lambda f: 0.6 + 0.4 * np.cos(2 * np.pi * p['cycles'] * (f - fmid) / span)
    raise ValueError(k)


# ------------------------------------------------------------------ library side

def _period_arg(p):
    """The period as the library receives it: seconds as a float, or (input-type stratum) a Quantity in minutes."""
    if 'period_min' in p:
        from astropy import units as u
        return p['period_min'] * u.min
    return p['period']


def build_lib_path(stg, p):
    k = p['kind']
    if k == 'constant':
        return stg.constant_path(p['f_start'], p['drift'])
    if k == 'squared':
        return stg.squared_path(p['f_start'], p['drift'])
    if k == 'sine':
        return stg.sine_path(p['f_start'], p['drift'], _period_arg(p), p['amplitude'])
    if k == 'rfi':
        return stg.simple_rfi_path(p['f_start'], p['drift'], p['spread'], spread_type=p['spread_type'],
                                   rfi_type=p['rfi_type'], seed=p['seed'])
    if k == 'custom_scalar':
        return lambda t: p['f_start']          # user callable returning a python float
    raise ValueError(k)


def build_lib_tprof(stg, p):
    k = p['kind']
    if k == 'constant':
        return stg.constant_t_profile(p['level'])
    if k == 'sine':
        return stg.sine_t_profile(_period_arg(p), phase=p['phase'], amplitude=p['amplitude'], level=p['level'])
    if k == 'pgauss':
        return stg.periodic_gaussian_t_profile(p['pulse_width'], p['period'], phase=p['phase'],
                                               pulse_offset_width=p.get('offset_width', 0),
                                               pulse_direction=p['direction'], pnum=p['pnum'],
                                               amplitude=p['amplitude'], level=p['level'],
                                               min_level=p['min_level'], seed=p['seed'])
    if k == 'custom_scalar':
        return lambda t: p['level']
    if k == 'custom_poly':
        return lambda t: p['level'] * (1.0 + p['slope'] * t)
    raise ValueError(k)


def build_lib_fprof(stg, p):
    k = p['kind']
    if k == 'box':
        return stg.box_f_profile(p['width'])
    if k == 'gaussian':
        return stg.gaussian_f_profile(p['width'])
    if k == 'multi':
        return stg.multiple_gaussian_f_profile(p['width'])
    if k == 'lorentzian':
        return stg.lorentzian_f_profile(p['width'])
    if k == 'voigt':
        return stg.voigt_f_profile(p['g_width'], p['l_width'])
    if k == 'sinc2':
        return stg.sinc2_f_profile(p['width'], width_mode=p.get('mode', 'crossing'), trunc=p.get('trunc', True))
    if k == 'custom_abs':
        return custom_abs_profile(p)            # the user's own function: it is the input, not code under test
    raise ValueError(k)


class SignalRef:
    """Holds the reference side of one signal spec (incl. same-seed twins)."""

    def __init__(self, stg, spec, fmid, span):
        self.spec = spec
        self.path_fn = None if spec['path']['kind'] == 'rfi' else ref_path_fn(spec['path'])
        self.path_twin = build_lib_path(stg, spec['path']) if spec['path']['kind'] == 'rfi' else None
        self.tprof_fn = ref_tprof_fn(spec['tprof'])
        self.tprof_twin = build_lib_tprof(stg, spec['tprof']) if self.tprof_fn is None else None
        self.fprof = ref_fprof_fn(spec['fprof'])
        self.bp = ref_bp_fn(spec['bp'], fmid, span)
        self.fixed_path = None      # array handed to the library (array/list forms)
        self.fixed_tprof = None

    def path(self, t):
        t = np.asarray(t, dtype=float)
        if self.path_twin is not None:
            return np.asarray(self.path_twin(t), dtype=float)
        return np.asarray(self.path_fn(t), dtype=float) + np.zeros(t.shape)

    def tprof(self, t):
        t = np.asarray(t, dtype=float)
        if self.tprof_twin is not None:
            return np.asarray(self.tprof_twin(t), dtype=float)
        return np.asarray(self.tprof_fn(t), dtype=float) + np.zeros(t.shape)


def bounding_columns(fs, df, fchans, brange):
    """Independent computation of the column range [lo, hi) of a bounding frequency range."""
    if brange is None:
        return 0, fchans
    fmin = fs[0]
    # (bounds far outside the band, including infinite ones, select up to the band's edge)
    lo = int(np.rint(np.clip((brange[0] - fmin) / df, -2.0, fchans + 2.0)))
    hi = int(np.rint(np.clip((brange[1] - fmin) / df, -2.0, fchans + 2.0)))
    lo = min(max(lo, 0), fchans)
    hi = min(max(hi, 0), fchans)
    if hi < lo:
        hi = lo
    return lo, hi


def lib_args(stg, spec, ts, ts_ext, fs, lo, hi, opts, ref):
    """Objects to hand to Frame.add_signal for this spec, honouring the requested input forms.
    Array forms are sampled from the *reference* closed form on the frame's own axes."""
    sp, st = spec['path'], spec['tprof']
    smear = opts.get('doppler_smearing', False)
    form = sp.get('form', 'callable')
    if form == 'callable':
        path = build_lib_path(stg, sp)
    elif form in ('array', 'list'):
        if ref.fixed_path is None:
            ref.fixed_path = ref.path(ts_ext if smear else ts).copy()
        arr = ref.fixed_path.copy()
        path = arr.tolist() if form == 'list' else arr
    else:
        path = float(sp['f_start']) if form == 'scalar' else int(round(sp['f_start']))
        if form == 'scalar' and sp.get('np64'):
            path = np.float64(path)               # a numpy double IS a Python float: the scalar a caller reads out of an array
    form = st.get('form', 'callable')
    if form == 'callable':
        tprof = build_lib_tprof(stg, st)
    elif form in ('array', 'list'):
        if ref.fixed_tprof is None:
            ref.fixed_tprof = ref.tprof(ts).copy()
        arr = ref.fixed_tprof.copy()
        tprof = arr.tolist() if form == 'list' else arr
    else:
        tprof = float(st['level']) if form == 'scalar' else int(st['level'])
        if form == 'scalar' and st.get('np64'):
            tprof = np.float64(tprof)
    fprof = build_lib_fprof(stg, spec['fprof'])
    b = spec['bp']
    if b['kind'] == 'none':
        bp = None
    elif b['kind'] == 'scalar':
        bp = b['level']
        if b.get('np64') and isinstance(bp, float):
            bp = np.float64(bp)
    elif b['kind'] == 'constant':
        bp = stg.constant_bp_profile(b['level'])
    elif b['kind'] == 'cos':
        fn = ref.bp
        bp = lambda f: fn(np.asarray(f, dtype=float))  # noqa: E731
    elif b['kind'] == 'array':
        bp = ref.bp(fs)          # full-length form; restricted form is built by the caller on ValueError
    return path, tprof, fprof, bp


def evaluate(ref, ts, fs, df, dt, lo, hi, opts):
    """Reference value and bound for columns [lo, hi); returns full-frame arrays (zeros outside)."""
    spec = ref.spec
    T, F = len(ts), len(fs)
    value = np.zeros((T, F))
    bound = np.zeros((T, F))
    smear = bool(opts.get('doppler_smearing', False))
    n = int(opts.get('smearing_subsamples', 10)) if smear else 1
    St = int(opts.get('t_subsamples', 10))
    Sf = int(opts.get('f_subsamples', 10)) if opts.get('integrate_f_profile') else 1
    ts = np.asarray(ts, dtype=float)
    t_ext = np.append(ts, ts[-1] + dt)
    # ---- time profile
    tform = spec['tprof'].get('form', 'callable')
    if tform == 'callable' and opts.get('integrate_t_profile'):
        grid = ts[:, None] + np.arange(St)[None, :] * dt / St
        Tt = ref.tprof(grid.ravel()).reshape(T, St).mean(axis=1)
    elif tform in ('scalar', 'int'):
        Tt = np.full(T, float(spec['tprof']['level'] if tform == 'scalar' else int(spec['tprof']['level'])))
    elif tform in ('array', 'list'):
        Tt = ref.fixed_tprof
    else:
        Tt = ref.tprof(ts)
    # ---- path (T or T+1 centres)
    pform = spec['path'].get('form', 'callable')
    Teff = T + 1 if smear else T
    tt = t_ext if smear else ts
    if pform == 'callable' and opts.get('integrate_path'):
        grid = tt[:, None] + np.arange(St)[None, :] * dt / St
        P = ref.path(grid.ravel()).reshape(Teff, St).mean(axis=1)
    elif pform in ('scalar', 'int'):
        P = np.full(Teff, float(spec['path']['f_start']) if pform == 'scalar' else float(int(round(spec['path']['f_start']))))
    elif pform in ('array', 'list'):
        P = ref.fixed_path
    else:
        P = ref.path(tt)
    if hi <= lo:
        return value, bound, dict(Tt=Tt, P=P, n=n)
    # ---- rounding of the TIME argument. With a time axis starting near 0 this is nothing; for a frame injected at a cadence
    # offset of 10^4 s one ulp of t is 2e-12 s, and every operation on t (offset + i*dt, t + phase, 2 pi t / period, t - pulse centre)
    # rounds at that magnitude -- for a profile or path that varies on a scale of dt = 10 ms that is 1e-9 relative, more than the
    # generic slack below. First-order envelopes for 16 ulp of the largest time: finite differences of the reference closed forms;
    # analytic slopes where the reference is a same-seed twin of a seeded library object (it cannot be evaluated twice).
    t_eps = 16 * float(np.spacing(max(float(np.max(np.abs(t_ext))), float(dt))))
    envT = np.zeros(T)
    if tform == 'callable':
        st_ = spec['tprof']
        if ref.tprof_twin is None:
            if opts.get('integrate_t_profile'):
                gridt = (ts[:, None] + np.arange(St)[None, :] * dt / St).ravel()
                base_t = ref.tprof(gridt)
                envT = np.maximum(np.abs(ref.tprof(gridt + t_eps) - base_t), np.abs(ref.tprof(gridt - t_eps) - base_t)).reshape(T, St).mean(axis=1)
            else:
                envT = np.maximum(np.abs(ref.tprof(ts + t_eps) - Tt), np.abs(ref.tprof(ts - t_eps) - Tt))
        else:
            wdt = float(st_.get('pulse_width', dt))
            envT = np.full(T, 2.0 * abs(float(st_.get('level', 1.0))) * max(1.0, abs(float(st_.get('amplitude', 1.0)))) * 1.5 / wdt * t_eps)
    envP = np.zeros(Teff)
    if pform == 'callable':
        if ref.path_twin is None:
            if opts.get('integrate_path'):
                gridp = (tt[:, None] + np.arange(St)[None, :] * dt / St).ravel()
                base_p = ref.path(gridp)
                envP = np.maximum(np.abs(ref.path(gridp + t_eps) - base_p), np.abs(ref.path(gridp - t_eps) - base_p)).reshape(Teff, St).mean(axis=1)
            else:
                envP = np.maximum(np.abs(ref.path(tt + t_eps) - P), np.abs(ref.path(tt - t_eps) - P))
        else:
            envP = np.full(Teff, abs(float(spec['path'].get('drift', 0.0))) * t_eps)
    cols = np.arange(lo, hi)
    fmax_abs = max(abs(fs[0]), abs(fs[-1]), float(np.max(np.abs(P))))
    eps = (8 + 2 * n) * np.spacing(fmax_abs) + float(np.max(envP))
    grid = fs[cols][:, None] + np.arange(Sf)[None, :] * df / Sf         # (C, Sf)
    B = ref.bp(grid)
    envB = np.maximum(np.abs(ref.bp(grid + eps) - B), np.abs(ref.bp(grid - eps) - B))
    acc = np.zeros((T, len(cols), Sf))
    accenv = np.zeros((T, len(cols), Sf))
    g = grid[None, :, :]
    for k in range(n):
        c = (P[:T] + k * ((P[1:T + 1] - P[:T]) / n if smear else 0.0))[:, None, None]
        Fv = ref.fprof(g, c)
        envF = np.maximum(np.abs(ref.fprof(g + eps, c) - Fv), np.abs(ref.fprof(g - eps, c) - Fv))
        if spec['fprof']['kind'] == 'custom_abs':
            # not a function of (f - centre) alone: an error of the centre is not equivalent to an error of f
            envF = envF + np.maximum(np.abs(ref.fprof(g, c + eps) - Fv), np.abs(ref.fprof(g, c - eps) - Fv))
        acc += Fv
        accenv += envF * np.abs(B)[None] + np.abs(Fv) * envB[None]
    val = (Tt[:, None, None] * acc * B[None] / n).mean(axis=2)
    bnd = 2 * (np.abs(Tt)[:, None, None] * accenv / n).mean(axis=2)
    bnd = bnd + 2 * (envT[:, None, None] * np.abs(acc * B[None]) / n).mean(axis=2)
    peak = float(np.max(np.abs(val))) if val.size else 0.0
    bnd = bnd + 1e-12 * peak + 1e-10 * np.abs(val) + 1e-290
    value[:, lo:hi] = val
    bound[:, lo:hi] = bnd
    return value, bound, dict(Tt=Tt, P=P, n=n, peak=peak)


def compare(got, value, bound, R, key, lo=None, hi=None, extra=None, **detail):
    """Pixel-wise three-valued comparison. Returns number of decidable pixels compared."""
    peak = float(np.max(np.abs(value))) if value.size else 0.0
    dec = bound <= max(1e-3 * peak, 1e-280)
    if peak == 0.0:
        dec = np.ones(value.shape, dtype=bool)
    err = np.abs(got - value)
    if extra is not None:                # additive slack, e.g. absorption when the signal is observed as a data difference
        bound = bound + extra
    bad = dec & ~(err <= bound)          # NaN in got => bad
    nd = int(dec.sum())
    R.count('pixels_compared', nd)
    R.count('pixels_undecidable', int((~dec).sum()))
    if nd:
        ratio = np.where(dec & (bound > 0), err / np.where(bound > 0, bound, 1), 0.0)
        R.maximum('sig_err_over_bound', float(np.nanmax(ratio)) if ratio.size else 0.0)
    if bad.any():
        i, j = np.argwhere(bad)[0]
        R.violate(key, row=int(i), col=int(j), got=float(got[i, j]), want=float(value[i, j]),
                  bound=float(bound[i, j]), nbad=int(bad.sum()), peak=peak, **detail)
        return nd
    R.check(True, key)
    return nd
