"""R-PFB: polyphase filterbank by its definition (direct FIR + explicit DFT matrix, no np.fft).

X[n,k] = P^-1/2 * sum_p exp(-2 pi i k p / P) * sum_{m<M} h[m P + p] * x[(n+m) P + p],   k < P/2
"""
import numpy as np

_D = {}


def dft_matrix(P, K):
    key = (P, K)
    if key not in _D:
        p = np.arange(P)[:, None]
        k = np.arange(K)[None, :]
        # reduce k*p mod P before the division: keeps the phase exact for large P
        _D[key] = np.exp(-2j * np.pi * ((p * k) % P) / P)
    return _D[key]


def ref_pfb(x, h, M, P, K=None):
    """All N = len(x)//P - M + 1 spectra (rows) of the definition, channels 0..K-1 (default P/2)."""
    K = P // 2 if K is None else K
    x = np.asarray(x)
    nseg = len(x) // P
    fr = x[:nseg * P].reshape(nseg, P)
    N = nseg - M + 1
    if N <= 0:
        return np.zeros((0, K), dtype=complex)
    hp = np.asarray(h).reshape(M, P)
    s = np.zeros((N, P), dtype=np.result_type(fr.dtype, float))
    for m in range(M):
        s = s + fr[m:m + N] * hp[m]
    return (s @ dft_matrix(P, K)) / np.sqrt(P)
