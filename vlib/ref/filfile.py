"""Independent readers for the two container formats (header fields + data in file order).

.fil: SIGPROC filterbank -- HEADER_START, (int32 length, keyword, value)*, HEADER_END, then
float32 samples, time-major, nifs, then channel (file order).
.h5 : HDF5 'data' dataset (time, feed, channel) with header attributes.
Also an independent writer for .fil (used by C19).
"""
import struct
import numpy as np

INT_KEYS = {'telescope_id', 'machine_id', 'data_type', 'barycentric', 'pulsarcentric', 'nbits', 'nsamples', 'nchans', 'nifs',
            'nbeams', 'ibeam'}
DBL_KEYS = {'az_start', 'za_start', 'src_raj', 'src_dej', 'tstart', 'tsamp', 'fch1', 'foff', 'refdm', 'period'}
STR_KEYS = {'rawdatafile', 'source_name'}


def read_fil(path):
    b = open(path, 'rb').read()
    pos = 0

    def rstr():
        nonlocal pos
        n = struct.unpack('<i', b[pos:pos + 4])[0]
        pos += 4
        if n < 0 or n > 255:
            raise ValueError(f'bad string length {n} at {pos}')
        s = b[pos:pos + n].decode('ascii')
        pos += n
        return s
    if rstr() != 'HEADER_START':
        raise ValueError('no HEADER_START')
    hdr = {}
    while True:
        k = rstr()
        if k == 'HEADER_END':
            break
        if k in INT_KEYS:
            hdr[k] = struct.unpack('<i', b[pos:pos + 4])[0]
            pos += 4
        elif k in DBL_KEYS:
            hdr[k] = struct.unpack('<d', b[pos:pos + 8])[0]
            pos += 8
        elif k in STR_KEYS:
            hdr[k] = rstr()
        else:
            raise ValueError(f'unknown sigproc keyword {k!r}')
    nbits = hdr.get('nbits', 32)
    if nbits != 32:
        raise ValueError(f'nbits {nbits} unsupported here')
    nch, nif = hdr['nchans'], hdr.get('nifs', 1)
    raw = np.frombuffer(b[pos:], dtype='<f4')
    if raw.size % (nch * nif):
        raise ValueError(f'data size {raw.size} not a multiple of nchans*nifs={nch * nif}')
    data = raw.reshape(-1, nif, nch)
    return hdr, data


def read_h5(path):
    import h5py
    import hdf5plugin  # noqa: F401  (bitshuffle filter)
    with h5py.File(path, 'r') as f:
        d = f['data']
        hdr = {}
        for k, v in d.attrs.items():
            if isinstance(v, bytes):
                v = v.decode()
            elif isinstance(v, np.generic):
                v = v.item()
            hdr[k] = v
        data = np.array(d[...])
    return hdr, data


def write_fil(path, hdr, data):
    """data: (tchans, nchans) in file order; hdr: dict with at least fch1, foff (MHz), tsamp, tstart."""
    def kw(s):
        e = s.encode('ascii')
        return struct.pack('<i', len(e)) + e
    out = kw('HEADER_START')
    full = dict(telescope_id=6, machine_id=10, data_type=1, nbits=32, nifs=1, ibeam=1, nbeams=1, source_name='TESTSRC',
                rawdatafile='none', src_raj=0.0, src_dej=0.0, az_start=0.0, za_start=0.0)
    full.update(hdr)
    full['nchans'] = data.shape[1]
    for k, v in full.items():
        out += kw(k)
        if k in INT_KEYS:
            out += struct.pack('<i', int(v))
        elif k in DBL_KEYS:
            out += struct.pack('<d', float(v))
        else:
            out += kw(str(v))
    out += kw('HEADER_END')
    with open(path, 'wb') as f:
        f.write(out)
        np.asarray(data, dtype='<f4').tofile(f)
