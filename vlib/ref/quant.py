"""R-QUANT: quantiser automaton from the property text.

call counter c; statistics refreshed iff (p > 0 and c mod p == 0) or (p <= 0 and c == 0);
statistics = mean/std of the first min(N, len) entries along axis 0 of that call's input;
output = clip(rint(ts/ds * (x - dm) + tm), -2^(b-1), 2^(b-1)-1); ds == 0 => factor 0;
a custom deviation replaces ds only.
"""
import numpy as np


class QuantRef:
    def __init__(self, target_mean, target_std, bits, period, nsamp):
        self.tm, self.ts, self.bits, self.period, self.nsamp = target_mean, target_std, bits, period, nsamp
        self.reset()

    def reset(self):
        self.c = 0
        self.stats = None

    def refresh_due(self):
        if self.period > 0:
            return self.c % self.period == 0
        return self.c == 0

    def quantize(self, x, custom_std=None):
        """-> (ints, pre-rounding values)."""
        x = np.asarray(x, dtype=float)
        if self.refresh_due():
            n = min(self.nsamp, len(x))
            self.stats = (float(np.mean(x[:n])), float(np.std(x[:n])))
        self.c += 1
        dm, ds = self.stats
        if custom_std is not None:
            ds = custom_std
        factor = 0.0 if ds == 0 else self.ts / ds
        pre = factor * (x - dm) + self.tm
        lo, hi = -2 ** (self.bits - 1), 2 ** (self.bits - 1) - 1
        return np.clip(np.rint(pre), lo, hi).astype(np.int64), pre


def tie_mask(pre, bits, rel=1e-9):
    """Entries whose rounding is undecidable: pre-value within rel*max(1,|v|) of a half-integer inside the clip range."""
    pre = np.asarray(pre, dtype=float)
    frac = np.abs(pre - np.floor(pre) - 0.5)
    lo, hi = -2 ** (bits - 1), 2 ** (bits - 1) - 1
    inside = (pre > lo - 1) & (pre < hi + 1)
    return (frac <= rel * np.maximum(1.0, np.abs(pre))) & inside
