"""R-NOISE -- reference pieces for C11: acceptance bands derived from the *claimed* distributions,
goodness-of-fit statistics, and the median-centred sigma-clip estimator.

Every band is two-sided with tail probability <= 2*P per test (P = 1e-9, i.e. >= 6 sigma):
  * exact laws where they exist (sum of chi-squared is chi-squared; Gaussian mean is normal; Gaussian sum of
    squares about the claimed mean is chi-squared; floor count is binomial);
  * Pearson statistic of the probability-integral transform in 32 equiprobable cells against the chi2_31 quantile;
  * Kolmogorov distance against the Dvoretzky-Kiefer-Wolfowitz-Massart bound (valid for every N);
  * second moment about the claimed mean of chi-squared noise: truncated Chernoff bound (a rigorous bound, evaluated
    by quadrature), because the normal approximation of s^2 is poor in the 1e-9 tail for few degrees of freedom.
Nothing here looks at setigen.
"""
import math
import numpy as np
from scipy import stats, special

P = 1e-9
CELLS = 32
PEARSON_MAX = float(stats.chi2.isf(2 * P, CELLS - 1))
Z_MAX = float(stats.norm.isf(P))


def dkw_eps(n):
    return math.sqrt(math.log(2.0 / (2 * P)) / (2.0 * n))


def pearson(u):
    """Pearson statistic of values u in [0,1] against the uniform law, CELLS equal cells."""
    n = u.size
    idx = np.minimum((u * CELLS).astype(np.int64), CELLS - 1)
    obs = np.bincount(idx, minlength=CELLS).astype(float)
    e = n / CELLS
    return float(np.sum((obs - e) ** 2) / e)


def ks(u):
    """Kolmogorov distance of u from the uniform law."""
    s = np.sort(u, axis=None)
    n = s.size
    i = np.arange(1, n + 1)
    return float(max(np.max(i / n - s), np.max(s - (i - 1) / n)))


def chi2_sum_band(k, n):
    """Band of sum_i (k X_i / mean) for n iid scaled chi2_k variables: exactly chi2_{n k}."""
    return float(stats.chi2.ppf(P, n * k)), float(stats.chi2.isf(P, n * k))


_msd_cache = {}


def chi2_msd_band(k, n):
    """Band (lo, hi) for V = mean_i (X_i - 1)^2 with X_i iid chi2_k / k  (E V = 2/k).

    Upper: P(V >= hi) <= P(some Y_i > c) + P(mean min(Y_i, c) >= hi) <= P/2 + exp(-n I(hi)), I the Legendre transform
    of the cumulant generating function of min(Y, c), Y = (X-1)^2; lower: P(V <= lo) <= exp(-n I(lo)) (t < 0).
    """
    key = (int(k), int(n))
    if key in _msd_cache:
        return _msd_cache[key]
    xcut = float(stats.chi2.isf(P / (4.0 * n), k)) / k
    c = (xcut - 1.0) ** 2
    xlow = 1.0 - math.sqrt(c)
    if xlow > 0 and float(stats.chi2.cdf(k * xlow, k)) > P / (4.0 * n):
        raise RuntimeError('chernoff: lower truncation mass too large')
    x = np.linspace(0.0, xcut, 20001)
    f = k * stats.chi2.pdf(k * x, k)
    y = np.minimum((x - 1.0) ** 2, c)
    tail = float(stats.chi2.sf(k * xcut, k))
    trap = getattr(np, 'trapezoid', None) or np.trapz
    norm0 = trap(f, x) + tail

    def cgf(t):
        # log E exp(t Y'), and E[Y' exp(t Y')]/E exp(t Y'); shifted by t*c for t > 0 so that nothing overflows
        sh = t * c if t > 0 else 0.0
        w = np.exp(t * y - sh) * f
        tl = math.exp(t * c - sh) * tail
        e0 = (trap(w, x) + tl) / norm0
        e1 = (trap(y * w, x) + c * tl) / norm0
        return math.log(e0) + sh, e1 / e0

    def solve(sign, level):
        # rate(t) = t*L'(t) - L(t) increases with |t|; find n*rate = level
        lo_t, hi_t = 0.0, 1e-3
        for _ in range(200):
            L, d = cgf(sign * hi_t)
            if n * (sign * hi_t * d - L) >= level:
                break
            lo_t, hi_t = hi_t, hi_t * 2
        else:
            raise RuntimeError('chernoff: no bracket')
        for _ in range(50):
            mid = 0.5 * (lo_t + hi_t)
            L, d = cgf(sign * mid)
            if n * (sign * mid * d - L) >= level:
                hi_t = mid
            else:
                lo_t = mid
        return cgf(sign * hi_t)[1]

    hi = solve(+1, math.log(2.0 / P))
    lo = solve(-1, math.log(1.0 / P))
    _msd_cache[key] = (lo, hi)
    return lo, hi


def clip_stats(data, sigma=3.0, iters=5):
    """Median-centred sigma clipping: repeat (centre = median, width = sigma * std of the survivors, drop what lies
    outside) until nothing is dropped or `iters` rounds; returns mean, std, number of survivors."""
    x = np.asarray(data, dtype=float).ravel()
    for _ in range(iters):
        med = np.median(x)
        sd = np.std(x)
        keep = (x >= med - sigma * sd) & (x <= med + sigma * sd)
        if keep.all():
            break
        x = x[keep]
    return float(np.mean(x)), float(np.std(x)), int(x.size)


# ------------------------------------------------------------------ composite tests; each returns list of (name, ok, detail)

def test_chi2(noise, x_mean, k):
    """noise claimed iid  x_mean * chi2_k / k."""
    v = np.asarray(noise, dtype=float).ravel()
    n = v.size
    out = []
    if not np.all(np.isfinite(v)) or np.any(v < 0):
        return [('support', False, dict(min=float(np.min(v))))]
    xs = v / x_mean
    lo, hi = chi2_sum_band(k, n)
    s = float(np.sum(xs) * k)
    out.append(('mean', lo <= s <= hi, dict(mean=float(np.mean(v)), want=x_mean, z=(s - n * k) / math.sqrt(2.0 * n * k))))
    vlo, vhi = chi2_msd_band(k, n)
    msd = float(np.mean((xs - 1.0) ** 2))
    out.append(('variance', vlo <= msd <= vhi, dict(var=msd * x_mean ** 2, want=2.0 * x_mean ** 2 / k, ratio=msd * k / 2.0,
                                                    band=[vlo * k / 2.0, vhi * k / 2.0])))
    u = stats.chi2.cdf(xs * k, k)
    ps = pearson(u)
    out.append(('pit', ps <= PEARSON_MAX, dict(pearson=ps, max=PEARSON_MAX)))
    d = ks(u)
    out.append(('ks', d <= dkw_eps(n), dict(d=d, eps=dkw_eps(n))))
    return out


def test_gaussian(noise, mu, sd):
    v = np.asarray(noise, dtype=float).ravel()
    n = v.size
    if not np.all(np.isfinite(v)):
        return [('support', False, {})]
    z = (v - mu) / sd
    out = []
    zm = float(np.sum(z) / math.sqrt(n))
    out.append(('mean', abs(zm) <= Z_MAX, dict(mean=float(np.mean(v)), want=mu, z=zm)))
    ss = float(np.sum(z * z))
    lo, hi = float(stats.chi2.ppf(P, n)), float(stats.chi2.isf(P, n))
    out.append(('variance', lo <= ss <= hi, dict(std=math.sqrt(ss / n) * sd, want=sd, ratio=ss / n, band=[lo / n, hi / n])))
    u = special.ndtr(z)
    ps = pearson(u)
    out.append(('pit', ps <= PEARSON_MAX, dict(pearson=ps, max=PEARSON_MAX)))
    d = ks(u)
    out.append(('ks', d <= dkw_eps(n), dict(d=d, eps=dkw_eps(n))))
    return out


def test_truncated(noise, mu, sd, floor):
    """noise claimed iid max(N(mu, sd), floor). The hard floor clause is checked by the caller."""
    v = np.asarray(noise, dtype=float).ravel()
    n = v.size
    if not np.all(np.isfinite(v)):
        return [('support', False, {})]
    p0 = float(special.ndtr((floor - mu) / sd))
    at = int(np.sum(v == floor))
    lo, hi = stats.binom.ppf(P, n, p0), stats.binom.isf(P, n, p0)
    out = [('floor-count', lo <= at <= hi, dict(at_floor=at, n=n, p0=p0, band=[float(lo), float(hi)]))]
    above = v[v > floor]
    m = above.size
    if m >= 1 and p0 < 1.0:
        u = (special.ndtr((above - mu) / sd) - p0) / (1.0 - p0)
        u = np.clip(u, 0.0, 1.0)
        if m >= 100 * CELLS:
            ps = pearson(u)
            out.append(('pit', ps <= PEARSON_MAX, dict(pearson=ps, max=PEARSON_MAX, n_above=m)))
        if m >= 200:
            d = ks(u)
            out.append(('ks', d <= dkw_eps(m), dict(d=d, eps=dkw_eps(m), n_above=m)))
    return out
