"""Parent process of a check: generate cases, shard over fresh worker interpreters,
aggregate three-valued verdicts, write evidence / replays, apply known findings.

    ./check C05 [--tier quick|thorough] [--seed N] [--replay file] [--jobs N] [--limit N]

exit 0: held on everything explored (open known findings are printed as KNOWN-FINDING lines)
exit 1: VIOLATION property=<id> replay=<path>
exit 2: INCONCLUSIVE (worker crash, coverage shortfall, harness error) -- never folded into held
"""
import os
import sys
import json
import time
import shutil
import argparse
import tempfile
import importlib
import subprocess

HERE = os.path.dirname(os.path.abspath(__file__))
VERIF = os.path.dirname(HERE)
sys.path.insert(0, VERIF)

from vlib import common, suitemon  # noqa: E402

PY = sys.executable


def load_known():
    """known_findings.txt lines:
         open: property=<id> key=<mechanism key> <what fails>
         fixed: property=<id> <commit> key=<mechanism key> <what failed>
       Only `open` lines suppress anything. Never written at run time."""
    path = os.path.join(VERIF, 'known_findings.txt')
    out = []
    if not os.path.exists(path):
        return out
    for line in open(path):
        line = line.strip()
        if not line or line.startswith('#'):
            continue
        status, _, rest = line.partition(':')
        toks = rest.split()
        d = {'status': status.strip(), 'text': rest.strip()}
        for t in toks:
            if t.startswith('property='):
                d['property'] = t[len('property='):]
            elif t.startswith('key='):
                d['key'] = t[len('key='):]
        out.append(d)
    return out


def repo_state():
    repo = common.REPO
    try:
        head = subprocess.run(['git', '-C', repo, 'rev-parse', 'HEAD'], capture_output=True, text=True).stdout.strip()
        dirty = bool(subprocess.run(['git', '-C', repo, 'status', '--porcelain', '--untracked-files=no'],
                                    capture_output=True, text=True).stdout.strip())
    except Exception:
        head, dirty = 'unknown', None
    return {'repo': repo, 'head': head, 'dirty': dirty}


def run_workers(prop, cases, jobs, tmpdir, shard_timeout, tier='quick'):
    n = max(1, min(jobs, (len(cases) + 3) // 4))
    shards = [[] for _ in range(n)]
    for i, c in enumerate(cases):
        shards[i % n].append(c)
    for sh in shards:
        sh.sort(key=lambda c: c.get('kind') != '__suite__')      # the long suite case starts first in its shard (stable sort)
    env = dict(os.environ)
    env.update({'PYTHONHASHSEED': '0', 'PYTHONDONTWRITEBYTECODE': '1', 'TQDM_DISABLE': '1',
                'OMP_NUM_THREADS': '1', 'OPENBLAS_NUM_THREADS': '1', 'MKL_NUM_THREADS': '1',
                'MPLBACKEND': 'Agg', 'HDF5_USE_FILE_LOCKING': 'FALSE'})
    env['PYTHONPATH'] = VERIF + os.pathsep + env.get('PYTHONPATH', '')
    env['VERIF_TMP'] = tmpdir
    env['VERIF_TIER_EFF'] = tier
    state = []
    for k, sh in enumerate(shards):
        sf = os.path.join(tmpdir, f'shard{k}.json')
        of = os.path.join(tmpdir, f'out{k}.jsonl')
        json.dump(sh, open(sf, 'w'), default=common._json_default)
        state.append({'k': k, 'sf': sf, 'of': of, 'n': len(sh), 'launches': 0, 'proc': None, 'log': os.path.join(tmpdir, f'log{k}.txt')})

    def launch(st):
        st['launches'] += 1
        lf = open(st['log'], 'ab')
        st['proc'] = subprocess.Popen([PY, '-B', '-m', 'vlib.worker', prop, st['sf'], st['of']],
                                      cwd=VERIF, env=env, stdout=lf, stderr=lf)
        st['t0'] = time.time()

    def finished_count(st):
        if not os.path.exists(st['of']):
            return 0
        return sum(1 for line in open(st['of']) if '"idx"' in line)

    def begun_count(st):
        if not os.path.exists(st['of']):
            return 0
        return sum(1 for line in open(st['of']) if '"_begin"' in line)

    for st in state:
        launch(st)
    crashes = []
    pending = list(state)
    while pending:
        time.sleep(0.05)
        for st in list(pending):
            rc = st['proc'].poll()
            if rc is None:
                if time.time() - st['t0'] > shard_timeout:
                    st['proc'].kill()
                    st['proc'].wait()
                    crashes.append({'shard': st['k'], 'why': 'shard wall-clock watchdog (inconclusive, not a verdict)'})
                    pending.remove(st)
                continue
            if begun_count(st) >= st['n'] and finished_count(st) >= begun_count(st):
                pending.remove(st)
                continue
            # worker died mid-shard: record, relaunch for the remaining cases
            tail = b''
            try:
                tail = open(st['log'], 'rb').read()[-1500:]
            except Exception:
                pass
            crashes.append({'shard': st['k'], 'rc': rc, 'tail': tail.decode('utf8', 'replace')})
            if st['launches'] < 6 and begun_count(st) < st['n']:
                launch(st)
            else:
                pending.remove(st)
    results = {}
    begun = set()
    for st in state:
        if os.path.exists(st['of']):
            for line in open(st['of']):
                try:
                    d = json.loads(line)
                except Exception:
                    continue
                if 'idx' in d:
                    results[d['idx']] = d
                elif '_begin' in d:
                    begun.add(d['_begin'])
    return results, begun, crashes


def main():
    ap = argparse.ArgumentParser()
    ap.add_argument('prop')
    ap.add_argument('--tier', default=os.environ.get('VERIF_TIER', 'quick'))
    ap.add_argument('--seed', type=int, default=int(os.environ.get('VERIF_SEED', '0')))
    ap.add_argument('--replay')
    ap.add_argument('--jobs', type=int, default=int(os.environ.get('VERIF_JOBS', '16')))
    ap.add_argument('--limit', type=int, default=0)
    ap.add_argument('--no-evidence', action='store_true')
    a = ap.parse_args()
    prop = a.prop.upper()
    tier = a.tier if a.tier in ('quick', 'thorough') else 'quick'
    mod = importlib.import_module('vlib.props.' + prop.lower())

    if a.replay:
        rp = json.load(open(a.replay))
        case = rp['case']
        case['_idx'] = 0
        tmpdir = tempfile.mkdtemp(prefix='verif_replay_')
        os.environ['VERIF_TMP'] = tmpdir
        try:
            from vlib import worker
            common.import_setigen()
            if hasattr(mod, 'setup'):
                mod.setup()
            res = worker.run_one(mod, case, verbose=True)
        finally:
            shutil.rmtree(tmpdir, ignore_errors=True)
        if res['status'] == 'violated':
            print(f'VIOLATION property={prop} replay={a.replay}')
            return 1
        return 0 if res['status'] in ('held', 'skipped') else 2

    t0 = time.time()
    cases = mod.gen_cases(a.seed, tier)
    if prop in suitemon.PROPS and not os.environ.get('VERIF_NO_SUITE'):
        # one more workload: the repository's own tests under this property's passive monitors (vlib/suitemon.py)
        cases.append({'kind': '__suite__', 'property': prop})      # appended: case indices of the generated cases stay put
    if a.limit:
        cases = cases[:a.limit]
    for i, c in enumerate(cases):
        c['_idx'] = i
    base = '/dev/shm' if os.path.isdir('/dev/shm') and os.access('/dev/shm', os.W_OK) else None
    tmpdir = tempfile.mkdtemp(prefix=f'verif_{prop}_', dir=base)
    shard_timeout = float(os.environ.get('VERIF_SHARD_TIMEOUT', '1500' if tier == 'quick' else '14000'))
    try:
        results, begun, crashes = run_workers(prop, cases, a.jobs, tmpdir, shard_timeout, tier)
    finally:
        shutil.rmtree(tmpdir, ignore_errors=True)

    # ---------------------------------------------------------------- aggregate
    counters, buckets, maxima = {}, {}, {}
    status_n = {}
    nontrivial_hashes = set()
    total_checks = 0
    violated = []
    errors = []
    for i, c in enumerate(cases):
        r = results.get(i)
        if r is None:
            status_n['lost'] = status_n.get('lost', 0) + 1
            continue
        status_n[r['status']] = status_n.get(r['status'], 0) + 1
        total_checks += r.get('checks', 0)
        for k, v in r.get('counters', {}).items():
            counters[k] = counters.get(k, 0) + v
        for k, v in r.get('buckets', {}).items():
            buckets[k] = buckets.get(k, 0) + v
        for k, v in r.get('maxima', {}).items():
            maxima[k] = max(maxima.get(k, float('-inf')), v)
        if r.get('nontrivial') and r['status'] in ('held', 'violated'):
            nontrivial_hashes.add(r['hash'])
        if r['status'] == 'violated':
            violated.append((c, r))
        elif r['status'] in ('error', 'inconclusive'):
            errors.append((c, r))

    known = [k for k in load_known() if k.get('property') == prop and k['status'] == 'open']
    known_keys = {k['key']: k for k in known}
    new_viol = []
    known_hits = {}
    for c, r in violated:
        keys = [v['key'] for v in r['violations']]
        unknown = [k for k in keys if k not in known_keys]
        for k in keys:
            if k in known_keys:
                known_hits[k] = known_hits.get(k, 0) + 1
        if unknown:
            new_viol.append((c, r, unknown))

    replay_dir = os.path.join(VERIF, 'evidence', 'replays', prop)
    if not a.no_evidence:
        shutil.rmtree(replay_dir, ignore_errors=True)
    replay_paths = []
    if new_viol:
        os.makedirs(replay_dir, exist_ok=True)
        seen_keys = {}
        for c, r, unknown in new_viol:
            sig = unknown[0]
            seen_keys[sig] = seen_keys.get(sig, 0) + 1
            if seen_keys[sig] > 3:
                continue
            path = os.path.join(replay_dir, f"{r['hash']}.json")
            cc = {k: v for k, v in c.items() if k != '_idx'}
            json.dump({'property': prop, 'seed': a.seed, 'tier': tier, 'case': cc,
                       'violations': r['violations'], 'repo': repo_state()},
                      open(path, 'w'), indent=1, default=common._json_default)
            replay_paths.append((path, unknown))

    req = mod.required(tier) if hasattr(mod, 'required') else {}
    if prop in suitemon.PROPS and not os.environ.get('VERIF_NO_SUITE') and not a.limit:
        req.setdefault('buckets', {})['suite-under-monitors'] = 1
        req.setdefault('counters', {}).update({'suite_tests_passed': 50, 'suite_monitor_checks': 5})
    shortfalls = []
    for k, m in req.get('buckets', {}).items():
        if buckets.get(k, 0) < m:
            shortfalls.append(f'bucket {k}: {buckets.get(k, 0)} < {m}')
    for k, m in req.get('counters', {}).items():
        if counters.get(k, 0) < m:
            shortfalls.append(f'counter {k}: {counters.get(k, 0)} < {m}')
    if total_checks < req.get('checks', 1):
        shortfalls.append(f'oracle evaluations {total_checks} < {req.get("checks", 1)}')
    if len(nontrivial_hashes) < max(2, req.get('nontrivial', 2)):
        shortfalls.append(f'distinct non-trivial cases {len(nontrivial_hashes)} < {max(2, req.get("nontrivial", 2))}')

    wall = time.time() - t0
    samples = []
    step = max(1, len(cases) // 4)
    for i in range(0, len(cases), step):
        c = {k: v for k, v in cases[i].items() if k != '_idx'}
        r = results.get(i, {})
        samples.append({'case': common.jsonable(c), 'status': r.get('status'), 'checks': r.get('checks'),
                        'nontrivial': r.get('nontrivial')})
        if len(samples) >= 5:
            break
    evidence = {
        'property_id': prop,
        'tier': tier,
        'seed': a.seed,
        'level': getattr(mod, 'LEVEL', 'exploration'),
        'coverage': {
            'evaluations': len(results),
            'distinct_nontrivial': len(nontrivial_hashes),
            'rule': mod.RULE,
            'samples': samples,
            'oracle_evaluations': total_checks,
            'case_status': status_n,
            'counters': counters,
            'buckets': buckets,
            'largest_error_over_bound': maxima,
            'known_finding_hits': known_hits,
            'coverage_shortfalls': shortfalls,
            'worker_crashes': len(crashes),
            'tree': repo_state(),
            'exhaustive': bool(getattr(mod, 'EXHAUSTIVE', False)),
        },
        'assumptions': list(getattr(mod, 'ASSUMPTIONS', [])),
        'wall_s': round(wall, 2),
        'violations': len(new_viol),
    }
    if not a.no_evidence:
        os.makedirs(os.path.join(VERIF, 'evidence'), exist_ok=True)
        json.dump(evidence, open(os.path.join(VERIF, 'evidence', f'{prop}.json'), 'w'), indent=1,
                  default=common._json_default)

    print(f'[{prop}] tier={tier} seed={a.seed} cases={len(cases)} ran={len(results)} status={status_n} '
          f'oracle_evals={total_checks} nontrivial={len(nontrivial_hashes)} wall={wall:.1f}s')
    if maxima:
        print(f'[{prop}] margins (largest error/bound): ' + ', '.join(f'{k}={v:.3g}' for k, v in sorted(maxima.items())))
    for k, n in known_hits.items():
        print(f'KNOWN-FINDING: property={prop} {known_keys[k]["text"]} (hit {n}x)')
    rc = 0
    if new_viol:
        by_key = {}
        for c, r, unknown in new_viol:
            by_key[unknown[0]] = by_key.get(unknown[0], 0) + 1
        print(f'[{prop}] violating cases by mechanism key: {by_key}')
        for path, unknown in replay_paths:
            print(f'VIOLATION property={prop} replay={path}  keys={unknown}')
        rc = 1
    if errors or crashes or status_n.get('lost') or shortfalls:
        for c, r in errors[:3]:
            print(f'[{prop}] HARNESS ERROR in case {r["idx"]}:\n{r.get("reason")}')
        for cr in crashes[:3]:
            print(f'[{prop}] worker crash: {cr}')
        for s in shortfalls:
            print(f'[{prop}] coverage shortfall: {s}')
        print(f'INCONCLUSIVE property={prop} reason=errors:{len(errors)} crashes:{len(crashes)} '
              f'lost:{status_n.get("lost", 0)} shortfalls:{len(shortfalls)}')
        if rc == 0:
            rc = 2
    return rc


if __name__ == '__main__':
    sys.exit(main())
