"""Shared plumbing for workers: import of the tree under test, recorder, tolerances.

The tree under test is $VERIF_REPO (default /repo); it is put first on sys.path so
that the same checks can be pointed at a mutated scratch copy (selftest / seeded).
"""
import os
import sys
import io
import json
import math
import hashlib
import logging
import warnings
import contextlib

REPO = os.path.realpath(os.environ.get('VERIF_REPO', '/repo'))
VERIF = os.path.dirname(os.path.dirname(os.path.abspath(__file__)))

_imported = {}


def import_setigen():
    """Import setigen from REPO, quietly. Returns the package."""
    if 'stg' in _imported:
        return _imported['stg']
    if REPO not in sys.path[:1]:
        sys.path.insert(0, REPO)
    os.environ.setdefault('TQDM_DISABLE', '1')
    os.environ.setdefault('MPLBACKEND', 'Agg')
    logging.disable(logging.CRITICAL)
    warnings.filterwarnings('ignore', category=DeprecationWarning)
    warnings.filterwarnings('ignore', category=UserWarning)
    with contextlib.redirect_stdout(io.StringIO()), contextlib.redirect_stderr(io.StringIO()):
        import setigen as stg
    got = os.path.realpath(os.path.dirname(os.path.dirname(stg.__file__)))
    if got != REPO:
        raise RuntimeError(f'setigen imported from {got}, expected {REPO}')
    _imported['stg'] = stg
    return stg


def setigen_dir():
    return os.path.join(REPO, 'setigen') + os.sep


@contextlib.contextmanager
def quiet():
    """Silence stdout/stderr chatter of blimpy/tqdm around a call."""
    with contextlib.redirect_stdout(io.StringIO()), contextlib.redirect_stderr(io.StringIO()):
        yield


def canon(obj):
    return json.dumps(obj, sort_keys=True, default=_json_default, separators=(',', ':'))


def case_hash(case):
    c = {k: v for k, v in case.items() if k != '_idx'}
    return hashlib.sha256(canon(c).encode()).hexdigest()[:16]


def _json_default(o):
    try:
        import numpy as np
        if isinstance(o, np.integer):
            return int(o)
        if isinstance(o, np.floating):
            return float(o)
        if isinstance(o, np.bool_):
            return bool(o)
        if isinstance(o, np.ndarray):
            if o.size > 24:
                return {'ndarray': list(o.shape), 'head': o.ravel()[:8].tolist()}
            return o.tolist()
        if isinstance(o, complex):
            return [o.real, o.imag]
    except Exception:
        pass
    return repr(o)


def jsonable(o):
    return json.loads(json.dumps(o, default=_json_default))


class Violation(Exception):
    pass


class Recorder:
    """Collects the observations of one case.

    check(cond, key, **detail): one oracle evaluation; a false cond is a violation
    whose *mechanism key* is `key` (what failed, structurally) -- known findings are
    matched on (property, key) only.
    """

    def __init__(self, case):
        self.case = case
        self.violations = []
        self.counters = {}
        self.buckets = {}
        self.maxima = {}
        self.nontrivial = False
        self.skipped = None
        self.inconclusive = None
        self.checks = 0

    def check(self, cond, key, **detail):
        self.checks += 1
        if not cond:
            if len(self.violations) < 8:
                self.violations.append({'key': key, 'detail': jsonable(detail)})
            else:
                self.count('violations_suppressed')
            return False
        return True

    def violate(self, key, **detail):
        return self.check(False, key, **detail)

    def count(self, name, n=1):
        self.counters[name] = self.counters.get(name, 0) + n

    def bucket(self, name, n=1):
        self.buckets[name] = self.buckets.get(name, 0) + n

    def maximum(self, name, value):
        value = float(value)
        if not math.isnan(value) and value > self.maxima.get(name, -math.inf):
            self.maxima[name] = value

    def mark_nontrivial(self, cond=True):
        if cond:
            self.nontrivial = True

    def skip(self, reason):
        self.skipped = reason

    def result(self):
        if self.violations:
            status = 'violated'
        elif self.inconclusive:
            status = 'inconclusive'
        elif self.skipped and self.checks == 0:
            status = 'skipped'
        else:
            status = 'held'
        return {
            'status': status,
            'violations': self.violations,
            'counters': self.counters,
            'buckets': self.buckets,
            'maxima': self.maxima,
            'nontrivial': bool(self.nontrivial),
            'checks': self.checks,
            'reason': self.skipped or self.inconclusive,
        }


# ---------------------------------------------------------------- tolerances

def ulp(x):
    import numpy as np
    return float(np.spacing(abs(float(x)))) if x != 0 else float(np.spacing(0.0))


def near_half_integer(pre, rel=1e-9):
    """Mask of values whose rounding is undecidable (within rel of k+0.5)."""
    import numpy as np
    pre = np.asarray(pre, dtype=float)
    frac = np.abs(pre - np.floor(pre) - 0.5)
    return frac <= rel * np.maximum(1.0, np.abs(pre))


UGLY_DF = [2.7939677238464355, 2.835503418452676, 1.3969838619232178, 0.9313225746154785,
           1.0, 0.5, 3.0, 2.0, 183105.46875 / 65536, 1e3 / 7, 0.7450580596923828, 11.444091796875]
UGLY_DT = [18.253611008, 1.4316557653333333, 1.0, 0.5, 17.98624, 10.73741824, 2.0, 0.33554432, 1.0737]
UGLY_FCH1 = [6e9, 6095.214842353016e6, 8421.38671875e6, 1.42040575e9, 1501.4648437500e6,
             3.1e9 + 1 / 3, 2.5e8, 4.9e10, 1e9, 1.23456789e7]


def pick(rng, seq):
    return seq[int(rng.integers(len(seq)))]


def mix(i, salt):
    """64-bit mix of a case index and a salt (splitmix-style)."""
    z = (i * 0x9E3779B97F4A7C15 + salt * 0xBF58476D1CE4E5B9 + 0x632BE59BD9B4E019) & 0xFFFFFFFFFFFFFFFF
    z ^= z >> 31
    z = (z * 0x94D049BB133111EB) & 0xFFFFFFFFFFFFFFFF
    z ^= z >> 29
    z = (z * 0xD6E8FEB86659FD93) & 0xFFFFFFFFFFFFFFFF
    z ^= z >> 32
    return z


def stratum(i, salt, seq):
    """Deterministic, balanced-in-the-large choice of a discrete stratum for case i that is DE-CORRELATED from every other
    stratum taken with a different salt.  Plain modular counters (i % 2, (i // 3) % 2, ...) alias with each other: two binary
    strata with the same period never meet in two of their four combinations, and whole families of inputs are silently never
    generated (found with tools/strata_audit.py; see DESIGN.md 10)."""
    if isinstance(seq, int):
        return mix(i, salt) % seq
    return seq[mix(i, salt) % len(seq)]
