"""Scenario catalogue for C12: every randomness source is seeded, time stamps are pinned.
Each scenario returns a list of (label, sha256) pairs over returned arrays and written files.

    python -B -m vlib.scen <name> <seed> <tmpdir>      -> prints a JSON list (fresh-process digests)
"""
import os
import sys
import json
import glob
import hashlib
import numpy as np

from . import common


def h(x):
    if isinstance(x, (bytes, bytearray)):
        return hashlib.sha256(bytes(x)).hexdigest()[:24]
    a = np.ascontiguousarray(np.asarray(x))
    return hashlib.sha256(str(a.dtype).encode() + str(a.shape).encode() + a.tobytes()).hexdigest()[:24]


def hfiles(stem):
    out = []
    for f in sorted(glob.glob(stem + '.????.raw')):
        out.append((os.path.basename(f), h(open(f, 'rb').read())))
    return out


def _backend(stg, seed, array=False, bits=8, npol=2, window='hamming'):
    v = stg.voltage
    kw = dict(sample_rate=1e6, fch1=1e9, ascending=bool(seed % 2), num_pols=npol, seed=seed)
    src = v.MultiAntennaArray(num_antennas=2, delays=[0, 3], **kw) if array else v.Antenna(**kw)
    ants = src.antennas if array else [src]
    if array:
        for s in src.bg_streams:
            s.add_noise(0, 0.5)
    for a in ants:
        for s in a.streams:
            s.add_noise(0, 1)
            s.add_constant_signal(f_start=1e9 + (1e6 / 16) * 2.3 * (1 if seed % 2 else -1) * (-1 if not kw['ascending'] else 1), drift_rate=0, level=0.1)
    rvb = v.RawVoltageBackend(src, digitizer=v.RealQuantizer(num_bits=8), filterbank=v.PolyphaseFilterbank(num_taps=4, num_branches=16, window_fn=window),
                              requantizer=v.ComplexQuantizer(num_bits=bits), start_chan=1, num_chans=3,
                              block_size=(2 if array else 1) * 3 * 16 * (2 * npol * bits // 8), blocks_per_file=2, num_subblocks=2)
    return rvb, src


def s_frame_noise(stg, seed, tmp):
    fr = stg.Frame(fchans=64, tchans=16, df=2.7939677238464355, dt=18.253611008, fch1=6e9, seed=seed, t_start=1.7e9)
    out = [('chi2', h(fr.add_noise(10.0))), ('gauss', h(fr.add_noise(5.0, 2.0, noise_type='gaussian'))),
           ('trunc', h(fr.add_noise(5.0, 2.0, 4.0, noise_type='gaussian'))), ('obs', h(fr.add_noise_from_obs())),
           ('obs_g', h(fr.add_noise_from_obs(noise_type='gaussian'))),
           ('obs_ns', h(fr.add_noise_from_obs(np.array([1., 2, 3]), np.array([.1, .2, .3]), np.array([0., .5, 1]), share_index=False, noise_type='gaussian'))),
           ('data', h(fr.data)), ('stats', h(np.array(fr.get_noise_stats(), dtype=float)))]
    return out


def s_frame_signal(stg, seed, tmp):
    fr = stg.Frame(fchans=96, tchans=12, df=1.3969838619232178, dt=1.4316557653333333, fch1=1.42e9, ascending=True, seed=seed, t_start=1.7e9)
    p = stg.simple_rfi_path(fr.get_frequency(40), 0.1, 6 * fr.df, spread_type='normal', rfi_type='random_walk', seed=seed + 1)
    t = stg.periodic_gaussian_t_profile(3.0, 7.0, pulse_offset_width=0.5, pulse_direction='rand', seed=seed + 2)
    s1 = fr.add_signal(p, t, stg.gaussian_f_profile(3 * fr.df))
    s2 = fr.add_signal(stg.simple_rfi_path(fr.get_frequency(10), 0, 4 * fr.df, seed=seed + 3), 1.0, stg.box_f_profile(2 * fr.df), doppler_smearing=True)
    s3 = fr.add_constant_signal(fr.get_frequency(70), -0.2, 3.0, 4.0, 'voigt')
    return [('s1', h(s1)), ('s2', h(s2)), ('s3', h(s3)), ('data', h(fr.data))]


def s_stream(stg, seed, tmp):
    v = stg.voltage
    a = v.Antenna(sample_rate=3e9, fch1=6e9, ascending=False, num_pols=2, seed=seed)
    a.x.add_noise(0, 1)
    a.y.add_noise(0.5, 2)
    a.x.add_noise(0, 0.3)
    a.x.add_constant_signal(5.9e9, 1e6, 0.2)
    out = [('r%d' % k, h(a.get_samples(n))) for k, n in enumerate((100, 1, 333))]
    a.x.update_noise(50)
    out.append(('noise_std', h(np.array([a.x.noise_std, a.y.noise_std], dtype=float))))
    out.append(('r_after', h(a.get_samples(64))))
    return out


def s_array(stg, seed, tmp):
    v = stg.voltage
    m = v.MultiAntennaArray(num_antennas=3, sample_rate=1e6, fch1=0, ascending=True, num_pols=2, delays=[2, 0, 5], seed=seed)
    for s in m.bg_streams:
        s.add_noise(0, 1)
    for a in m.antennas:
        a.x.add_noise(0, 0.5)
        a.y.add_noise(0, 0.5)
    out = [('r%d' % k, h(m.get_samples(n))) for k, n in enumerate((40, 6, 100))]
    m.reset_start()
    out.append(('after_reset', h(m.get_samples(20))))
    return out


def s_chanstd(stg, seed, tmp):
    fb = stg.voltage.PolyphaseFilterbank(num_taps=4, num_branches=16)
    a = fb.estimate_channelized_stds(factor=50, seed=seed)
    return [('stds', h(np.array(a)))]


def _rec(stg, seed, tmp, name, array=False, bits=8, npol=2, window='hamming', **kw):
    rvb, src = _backend(stg, seed, array=array, bits=bits, npol=npol, window=window)
    stem = os.path.join(tmp, name)
    with common.quiet():
        rvb.record(stem, num_blocks=3, length_mode='num_blocks', verbose=False, **kw)
    out = [(name + ':' + n, d) for n, d in hfiles(stem)]
    for f in glob.glob(stem + '.????.raw'):
        os.remove(f)
    return out


def s_record_default(stg, seed, tmp):
    return _rec(stg, seed, tmp, 'recdef')


def s_record_default_notemplate(stg, seed, tmp):
    return _rec(stg, seed, tmp, 'recdefnt', load_template=False)


def s_record_explicit(stg, seed, tmp):
    return _rec(stg, seed, tmp, 'recexp', header_dict={'OBSERVER': 'me', 'CUSTOM': 7, 'DIRECTIO': 0})


def s_record_array4(stg, seed, tmp):
    return _rec(stg, seed, tmp, 'recarr', array=True, bits=4, npol=1, header_dict={'DIRECTIO': 1})


def s_record_hann(stg, seed, tmp):
    # a non-default PFB window with the same (taps, branches) as every other scenario
    return _rec(stg, seed, tmp, 'rechann', window='hann', header_dict={'DIRECTIO': 0})


def s_record_blackman(stg, seed, tmp):
    return _rec(stg, seed, tmp, 'recblk', window='blackman', load_template=False)


def s_inject_foreign_cards(stg, seed, tmp):
    # input header with cards that are neither in the template nor supplied by the user; no template on re-recording
    v = stg.voltage
    rvb, src = _backend(stg, seed)
    stem = os.path.join(tmp, 'injfin')
    extra = {'DIRECTIO': 0, 'XTRACARD': 'alpha', 'ZZTOP': 42, 'AARDVARK': 2.5, 'MIDDLE': 'm', 'QUUX': -7, 'FOO1': 1, 'FOO2': 2, 'BAR': 'b'}
    with common.quiet():
        rvb.record(stem, num_blocks=2, length_mode='num_blocks', header_dict=dict(extra), load_template=False, verbose=False)
    a = v.Antenna(sample_rate=1e6, fch1=1e9, ascending=bool(seed % 2), num_pols=2, seed=seed + 11)
    a.x.add_constant_signal(f_start=1e9 + (1e6 / 16) * 2.2 * (1 if seed % 2 else -1), drift_rate=0, level=0.05)
    fb = v.PolyphaseFilterbank(num_taps=4, num_branches=16)
    fb.estimate_channelized_stds(factor=50, seed=seed + 5)
    with common.quiet():
        b2 = v.RawVoltageBackend.from_data(stem, a, filterbank=fb, start_chan=1, num_subblocks=1)
        out_stem = os.path.join(tmp, 'injfout')
        b2.record(out_stem, header_dict={'USERCARD': 1}, load_template=False, verbose=False)
    out = [('injf:' + n, d) for n, d in hfiles(out_stem)]
    for f in glob.glob(os.path.join(tmp, 'injf*.raw')):
        os.remove(f)
    return out


def s_record_twice_same_backend(stg, seed, tmp):
    rvb, src = _backend(stg, seed)
    out = []
    for k in range(2):
        stem = os.path.join(tmp, f'rectw{k}')
        with common.quiet():
            rvb.record(stem, num_blocks=2, length_mode='num_blocks', header_dict={'K': k}, verbose=False)
        out += [(f'rectw{k}:' + n, d) for n, d in hfiles(stem)]
        for f in glob.glob(stem + '.????.raw'):
            os.remove(f)
    return out


def s_inject(stg, seed, tmp):
    v = stg.voltage
    rvb, src = _backend(stg, seed)
    stem = os.path.join(tmp, 'injin')
    with common.quiet():
        rvb.record(stem, num_blocks=3, length_mode='num_blocks', header_dict={'DIRECTIO': 1}, verbose=False)
    a = v.Antenna(sample_rate=1e6, fch1=1e9, ascending=bool(seed % 2), num_pols=2, seed=seed + 11)
    a.x.add_constant_signal(f_start=1e9 + (1e6 / 16) * 2.2 * (1 if seed % 2 else -1), drift_rate=0, level=0.05)
    fb = v.PolyphaseFilterbank(num_taps=4, num_branches=16)
    fb.estimate_channelized_stds(factor=50, seed=seed + 5)
    with common.quiet():
        b2 = v.RawVoltageBackend.from_data(stem, a, filterbank=fb, start_chan=1, num_subblocks=2)
        out_stem = os.path.join(tmp, 'injout')
        b2.record(out_stem, header_dict={}, verbose=False)
    out = [('inj:' + n, d) for n, d in hfiles(out_stem)]
    for f in glob.glob(os.path.join(tmp, 'inj*.raw')):
        os.remove(f)
    return out


SCENARIOS = {f.__name__[2:]: f for f in (s_frame_noise, s_frame_signal, s_stream, s_array, s_chanstd, s_record_default,
                                         s_record_default_notemplate, s_record_explicit, s_record_array4,
                                         s_record_twice_same_backend, s_inject, s_record_hann, s_record_blackman,
                                         s_inject_foreign_cards)}


def run(name, seed, tmp):
    stg = common.import_setigen()
    return SCENARIOS[name](stg, seed, tmp)


if __name__ == '__main__':
    name, seed, tmp = sys.argv[1], int(sys.argv[2]), sys.argv[3]
    os.makedirs(tmp, exist_ok=True)
    res = run(name, seed, tmp)
    print('DIGESTS=' + json.dumps(res))
